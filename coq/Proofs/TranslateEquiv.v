(* Proofs/TranslateEquiv.v — C02: the sharded route and one plain Prometheus see the same targets.
   Label sets are compared extensionally (the value of every name; "" = absent), queries key by key. *)
From KV Require Import Base.Util Model.Inject Model.Translate Proofs.InjectProofs Proofs.TranslateProofs.
Local Open Scope list_scope.
Local Open Scope string_scope.

Definition I_ : string := "__scrape_interval__".
Definition T_ : string := "__scrape_timeout__".

(* ---- the two halves of populateLabels ---- *)
Definition pre (wi : bool) (c : jobcfg) (d : labels) : labels :=
  let m0 := set_if_empty "job" (jc_name c) d d in
  let m1 := if wi then set_if_empty T_ (jc_timeout c) d (set_if_empty I_ (jc_interval c) d m0) else m0 in
  let m2 := set_if_empty "__scheme__" (jc_scheme c) d (set_if_empty "__metrics_path__" (jc_path c) d m1) in
  set_params (jc_params c) m2.

Definition fin_labels (l : labels) (addr : string) : labels :=
  let m3 := del_meta (lb_set "__address__" addr l) in
  if String.eqb (lval "instance" l) "" then lb_set "instance" addr m3 else m3.

Section Finish.
Variable np : string -> bool.
Variable aok : string -> bool.
Variable iok : string -> string -> bool.

Definition port_suffix (l : labels) : option string :=
  let a := lval "__address__" l in
  let sch := lval "__scheme__" l in
  if np a then (if String.eqb sch "http" || String.eqb sch "" then Some ":80" else if String.eqb sch "https" then Some ":443" else None)
  else Some "".

Definition finish (wi : bool) (l : labels) : outcome :=
  if String.eqb (lval "__address__" l) "" then Failed else
  match port_suffix l with
  | None => Failed
  | Some suffix =>
    let addr := lval "__address__" l ++ suffix in
    if negb (aok addr) then Failed else
    if wi && negb (iok (lval I_ l) (lval T_ l)) then Failed else
    Active (fin_labels l addr)
  end.

Lemma populate_unfold R wi c d :
  populate R np aok iok wi c d = match R (pre wi c d) with None => Dropped | Some l => finish wi l end.
Proof. reflexivity. Qed.
End Finish.

Lemma lval_fin_labels k l addr :
  lval k (fin_labels l addr) =
  if String.eqb k "instance" && String.eqb (lval "instance" l) "" then addr
  else if has_prefix "__meta_" k then ""
  else if String.eqb k "__address__" then addr else lval k l.
Proof.
  unfold fin_labels. destruct (String.eqb (lval "instance" l) "") eqn:Ei.
  - rewrite lval_lb_set. destruct (String.eqb_spec k "instance") as [->|]; [reflexivity|].
    cbn [andb]. rewrite lval_del_meta, lval_lb_set. reflexivity.
  - rewrite andb_false_r. rewrite lval_del_meta, lval_lb_set. reflexivity.
Qed.

Lemma nd_fin_labels l addr : nd l -> nd (fin_labels l addr).
Proof.
  intros H. unfold fin_labels. destruct (String.eqb _ _).
  - apply nd_lb_set. unfold del_meta. apply nd_filter. now apply nd_lb_set.
  - unfold del_meta. apply nd_filter. now apply nd_lb_set.
Qed.
Lemma ne_fin_labels l addr : ne l -> ne (fin_labels l addr).
Proof.
  intros H. unfold fin_labels. destruct (String.eqb _ _).
  - apply ne_lb_set. unfold del_meta. apply ne_filter. now apply ne_lb_set.
  - unfold del_meta. apply ne_filter. now apply ne_lb_set.
Qed.

(* ---- the value of every name before relabeling ---- *)
Lemma pfirst_none ps k : has_prefix "__param_" k = false -> pfirst ps k = None.
Proof.
  intros H. induction ps as [|[x vs] r IH]; [reflexivity|]. cbn [pfirst]. rewrite IH.
  destruct vs as [|v0 vs]; [reflexivity|]. destruct (String.eqb_spec k ("__param_" ++ x)) as [->|]; [|reflexivity].
  now rewrite has_prefix_app in H.
Qed.

Lemma lval_pre wi c d k :
  lval k (pre wi c d) =
  match pfirst (jc_params c) k with
  | Some v => v
  | None =>
    if String.eqb (lval "__scheme__" d) "" && String.eqb k "__scheme__" then jc_scheme c
    else if String.eqb (lval "__metrics_path__" d) "" && String.eqb k "__metrics_path__" then jc_path c
    else if wi && String.eqb (lval T_ d) "" && String.eqb k T_ then jc_timeout c
    else if wi && String.eqb (lval I_ d) "" && String.eqb k I_ then jc_interval c
    else if String.eqb (lval "job" d) "" && String.eqb k "job" then jc_name c
    else lval k d
  end.
Proof.
  unfold pre. rewrite lval_set_params. destruct (pfirst (jc_params c) k); [reflexivity|].
  destruct wi; rewrite !lval_set_if_empty; cbn [andb];
    repeat (match goal with |- context [String.eqb ?a ?b] => destruct (String.eqb a b) end; cbn [andb]); reflexivity.
Qed.

Lemma nd_pre wi c d : nd d -> nd (pre wi c d).
Proof.
  intros H. unfold pre. apply nd_set_params. repeat apply nd_set_if_empty. destruct wi; repeat apply nd_set_if_empty; exact H.
Qed.
Lemma ne_pre wi c d : ne d -> ne (pre wi c d).
Proof.
  intros H. unfold pre. apply ne_set_params. repeat apply ne_set_if_empty. destruct wi; repeat apply ne_set_if_empty; exact H.
Qed.

(* ---- strings: prefixes ---- *)
Lemma has_prefix_weaken a b k : has_prefix (a ++ b) k = true -> has_prefix a k = true.
Proof.
  unfold has_prefix. revert k. induction a as [|c a IH]; intros k H; simpl; [destruct k; reflexivity|].
  destruct k as [|d k]; simpl in H; [discriminate|]. simpl. destruct (Ascii.ascii_dec c d); [|discriminate]. now apply IH.
Qed.

Lemma no_uu_prefix k p : has_prefix "__" k = false -> has_prefix ("__" ++ p) k = false.
Proof.
  intros H. destruct (has_prefix ("__" ++ p) k) eqn:E; [|reflexivity].
  apply has_prefix_weaken in E. congruence.
Qed.

Lemma visible_not_special k : has_prefix "__" k = false ->
  has_prefix invalid_prefix k = false /\ has_prefix "__param_" k = false /\ has_prefix "__meta_" k = false.
Proof.
  intros H. repeat split.
  - apply (no_uu_prefix k "invalid_label_" H).
  - apply (no_uu_prefix k "param_" H).
  - apply (no_uu_prefix k "meta_" H).
Qed.

Lemma neq_of_prefix (k lit : string) : has_prefix "__" k = false -> has_prefix "__" lit = true -> String.eqb k lit = false.
Proof. intros H1 H2. destruct (String.eqb_spec k lit); [subst; congruence|reflexivity]. Qed.

(* ---- the shipped value of a name ---- *)
Lemma lval_shipped ps L k' : shippable ps L ->
  lval k' (shipped ps L) =
  match lget (src k') L with
  | Some v => match ship_name ps (src k') v with Some n => if String.eqb k' n then v else "" | None => "" end
  | None => ""
  end.
Proof.
  intros Hs. unfold lval. rewrite shipped_flat_map, lget_shipped by exact Hs.
  destruct (lget (src k') L) as [v|]; [|reflexivity]. destruct (ship_name ps (src k') v) as [n|]; [|reflexivity].
  destruct (String.eqb k' n); reflexivity.
Qed.

(* a name that is neither a parameter label nor carries the prefix: shipped under its own name iff it is valid *)
Lemma lval_shipped_plain ps L k : shippable ps L ->
  has_prefix invalid_prefix k = false -> has_prefix "__param_" k = false ->
  lval k (shipped ps L) = if valid_name k then lval k L else "".
Proof.
  intros Hs Hp Hq. rewrite lval_shipped by exact Hs. unfold src. rewrite Hp. unfold lval.
  destruct (lget k L) as [v|]; [|now destruct (valid_name k)].
  unfold ship_name. rewrite Hq. destruct (valid_name k); [now rewrite String.eqb_refl|].
  destruct (String.eqb_spec k (invalid_prefix ++ k)) as [He|]; [|reflexivity].
  exfalso. rewrite He, has_prefix_app in Hp. discriminate.
Qed.

(* the prefixed name of k: present iff k is shipped under the prefix (an invalid name, or an overridden parameter) *)
Lemma lval_shipped_prefixed ps L k : shippable ps L ->
  lval (invalid_prefix ++ k) (shipped ps L) =
  match lget k L with
  | Some v => match ship_name ps k v with Some n => if String.eqb (invalid_prefix ++ k) n then v else "" | None => "" end
  | None => ""
  end.
Proof.
  intros Hs. rewrite lval_shipped by exact Hs. unfold src. now rewrite has_prefix_app, drop_prefix_app.
Qed.

(* ---- the group the sidecar writes ---- *)
Lemma lval_group name hash sh k :
  lval k (group_labels name hash sh) =
  if String.eqb k "__param__hash" then dec hash
  else if String.eqb k "__param__jobName" then name
  else if String.eqb k "__param__scheme" then (if String.eqb (lval "__scheme__" sh) "" then "http" else lval "__scheme__" sh)
  else if String.eqb k "__scheme__" then "http" else lval k sh.
Proof. unfold group_labels. now rewrite !lval_lb_set. Qed.

Lemma lval_group_other name hash sh k :
  String.eqb k "__param__hash" = false -> String.eqb k "__param__jobName" = false ->
  String.eqb k "__param__scheme" = false -> String.eqb k "__scheme__" = false ->
  lval k (group_labels name hash sh) = lval k sh.
Proof. intros H1 H2 H3 H4. now rewrite lval_group, H1, H2, H3, H4. Qed.

Lemma nd_group name hash sh : nd sh -> nd (group_labels name hash sh).
Proof. intros H. unfold group_labels. now repeat apply nd_lb_set. Qed.
Lemma ne_group name hash sh : ne sh -> ne (group_labels name hash sh).
Proof. intros H. unfold group_labels. now repeat apply ne_lb_set. Qed.

Lemma pfirst_not_in ps x : ~ In x (map fst ps) -> pfirst ps ("__param_" ++ x) = None.
Proof.
  induction ps as [|[y vs] r IH]; [reflexivity|]. cbn [pfirst map fst]. intros Hn.
  rewrite IH by (intros H; apply Hn; now right).
  destruct vs as [|v0 vs]; [reflexivity|]. destruct (String.eqb_spec ("__param_" ++ x) ("__param_" ++ y)) as [He|]; [|reflexivity].
  exfalso. apply Hn. left. symmetry. now apply (app_inj_l "__param_").
Qed.

Lemma pfirst_qval ps x : ndq ps -> pfirst ps ("__param_" ++ x) = match qval x ps with v0 :: _ => Some v0 | [] => None end.
Proof.
  unfold ndq, qval. induction ps as [|[y vs] r IH]; intros Hnd; [reflexivity|].
  cbn [pfirst map fst find] in *. apply NoDup_cons_iff in Hnd. destruct Hnd as [Hn Hr].
  destruct (String.eqb_spec y x) as [->|Hne].
  - rewrite pfirst_not_in by exact Hn. destruct vs as [|v0 vs]; [reflexivity|]. now rewrite String.eqb_refl.
  - rewrite IH by exact Hr. destruct (find _ r) as [[a [|w ws]]|]; try reflexivity;
      (destruct vs as [|v0 vs]; [reflexivity|]);
      (destruct (String.eqb_spec ("__param_" ++ x) ("__param_" ++ y)) as [He|]; [|reflexivity]);
      exfalso; apply Hne; symmetry; now apply (app_inj_l "__param_").
Qed.

(* ---- what the coordinator's final label set must look like for the round trip (all of it follows from the
   hypotheses of the main theorem) ---- *)
Record good (ps : list (string * list string)) (L : labels) (addr : string) : Prop := {
  g_ship : shippable ps L;
  g_ne : ne L;
  g_job : lval "job" L <> "";
  g_path : lval "__metrics_path__" L <> "";
  g_scheme : lval "__scheme__" L <> "";
  g_addr : lval "__address__" L = addr;
  g_addr_ne : addr <> "";
  g_instance : lval "instance" L <> "";
  g_nometa : forall k, has_prefix "__meta_" k = true -> lval k L = "";
  g_noivl : lval I_ L = "" /\ lval T_ L = "";
  g_noroute : lval "__param__hash" L = "" /\ lval "__param__jobName" L = "" /\ lval "__param__scheme" L = "";
  g_noempty_name : lval "" L = "";
}.

Lemma lget_none_of_lval k m : ne m -> lval k m = "" -> lget k m = None.
Proof. intros H E. rewrite lget_of_lval by exact H. now rewrite E. Qed.

Section Core.
Variables (np aok : string -> bool) (iok : string -> string -> bool).
Variable c : jobcfg.
Variable hash : N.
Variable L : labels.
Variable addr : string.
Notation ps := (jc_params c).
Hypothesis HG : good ps L addr.
Hypothesis Hps : ndq ps.
Hypothesis Hrps : qval "_hash" ps = [] /\ qval "_jobName" ps = [] /\ qval "_scheme" ps = [].
Hypothesis Hnp : np addr = false.
Hypothesis Haok : aok addr = true.
Hypothesis Hiok : iok (jc_interval c) (jc_timeout c) = true.
Hypothesis Hivne : jc_interval c <> "" /\ jc_timeout c <> "".

Definition S_ := shipped ps L.
Definition G_ := group_labels (jc_name c) hash S_.
Definition P_ := pre true (shard_cfg c) G_.
Definition l1_ := fold_left lm_step P_ P_.
Definition F_ := fin_labels l1_ addr.

Lemma nd_S : nd S_.
Proof. unfold S_. rewrite shipped_flat_map. apply nd_shipped. apply (g_ship _ _ _ HG). Qed.
Lemma ne_S : ne S_.
Proof. unfold S_. rewrite shipped_flat_map. apply ne_shipped. apply (g_ne _ _ _ HG). Qed.
Lemma nd_P : nd P_.
Proof. apply nd_pre. apply nd_group. apply nd_S. Qed.
Lemma ne_P : ne P_.
Proof. apply ne_pre. apply ne_group. apply ne_S. Qed.
Lemma nd_l1 : nd l1_.
Proof. apply nd_lm_fold. apply nd_P. Qed.
Lemma ne_l1 : ne l1_.
Proof. apply ne_lm_fold; apply ne_P. Qed.
Lemma nd_F : nd F_.
Proof. apply nd_fin_labels. apply nd_l1. Qed.
Lemma ne_F : ne F_.
Proof. apply ne_fin_labels. apply ne_l1. Qed.

(* plain, valid, reserved names the sidecar ships unchanged *)
Lemma S_plain k : has_prefix invalid_prefix k = false -> has_prefix "__param_" k = false -> valid_name k = true ->
  lval k S_ = lval k L.
Proof. intros H1 H2 H3. unfold S_. rewrite lval_shipped_plain by (try apply (g_ship _ _ _ HG); assumption). now rewrite H3. Qed.

Lemma G_scheme_param : lval "__param__scheme" G_ = lval "__scheme__" L.
Proof.
  unfold G_. rewrite lval_group.
  change (String.eqb "__param__scheme" "__param__hash") with false.
  change (String.eqb "__param__scheme" "__param__jobName") with false.
  change (String.eqb "__param__scheme" "__param__scheme") with true. cbv iota.
  rewrite (S_plain "__scheme__") by reflexivity.
  destruct (String.eqb_spec (lval "__scheme__" L) ""); [|reflexivity]. exfalso. now apply (g_scheme _ _ _ HG).
Qed.

(* a reserved, valid name that is neither a parameter nor one of the four names the group sets *)
Lemma G_plain k :
  String.eqb k "__param__hash" = false -> String.eqb k "__param__jobName" = false ->
  String.eqb k "__param__scheme" = false -> String.eqb k "__scheme__" = false ->
  has_prefix invalid_prefix k = false -> has_prefix "__param_" k = false -> valid_name k = true ->
  lval k G_ = lval k L.
Proof. intros. unfold G_. rewrite lval_group_other by assumption. now apply S_plain. Qed.

(* before the shard's relabeling *)
Lemma P_val k :
  lval k P_ = match pfirst ps k with
              | Some v => v
              | None => if String.eqb k T_ then jc_timeout c else if String.eqb k I_ then jc_interval c else lval k G_
              end.
Proof.
  unfold P_. rewrite lval_pre. cbn [shard_cfg jc_params jc_scheme jc_path jc_timeout jc_interval jc_name].
  destruct (pfirst ps k); [reflexivity|].
  assert (Hs : lval "__scheme__" G_ = "http") by (unfold G_; rewrite lval_group; reflexivity).
  assert (Hp : String.eqb (lval "__metrics_path__" G_) "" = false).
  { rewrite (G_plain "__metrics_path__") by reflexivity. apply String.eqb_neq. apply (g_path _ _ _ HG). }
  assert (Hj : String.eqb (lval "job" G_) "" = false).
  { rewrite (G_plain "job") by reflexivity. apply String.eqb_neq. apply (g_job _ _ _ HG). }
  assert (Ht : lval T_ G_ = "") by (rewrite (G_plain T_) by reflexivity; apply (g_noivl _ _ _ HG)).
  assert (Hi : lval I_ G_ = "") by (rewrite (G_plain I_) by reflexivity; apply (g_noivl _ _ _ HG)).
  rewrite Hs, Hp, Hj, Ht, Hi. change (String.eqb "http" "") with false. change (String.eqb "" "") with true.
  cbn [andb]. reflexivity.
Qed.

(* ---- the shard's relabeling (labelmap) ---- *)
Lemma prefixed_neq k : String.eqb (invalid_prefix ++ k) k = false.
Proof.
  destruct (String.eqb_spec (invalid_prefix ++ k) k) as [He|]; [|reflexivity]. exfalso.
  assert (Hl : String.length (invalid_prefix ++ k) = String.length k) by now rewrite He.
  rewrite length_append in Hl. simpl in Hl. lia.
Qed.

Lemma P_prefixed k : lval (invalid_prefix ++ k) P_ = lval (invalid_prefix ++ k) S_.
Proof.
  rewrite P_val. rewrite pfirst_none by reflexivity.
  change (String.eqb (invalid_prefix ++ k) T_) with false. change (String.eqb (invalid_prefix ++ k) I_) with false.
  unfold G_. apply lval_group_other; reflexivity.
Qed.

Definition via_prefix (k : string) : string :=
  match lget k L with
  | Some v => match ship_name ps k v with Some n => if String.eqb (invalid_prefix ++ k) n then v else "" | None => "" end
  | None => ""
  end.

Lemma l1_val k : k <> "" -> lval k l1_ = if String.eqb (via_prefix k) "" then lval k P_ else via_prefix k.
Proof.
  intros Hk. unfold l1_. rewrite lval_lm_fold by apply nd_P.
  destruct (String.eqb_spec k ""); [contradiction|].
  rewrite lget_of_lval by apply ne_P. rewrite P_prefixed. unfold S_.
  rewrite lval_shipped_prefixed by apply (g_ship _ _ _ HG). fold (via_prefix k).
  destruct (String.eqb (via_prefix k) ""); reflexivity.
Qed.

Lemma via_prefix_plain k : has_prefix "__param_" k = false -> valid_name k = true -> via_prefix k = "".
Proof.
  intros Hp Hv. unfold via_prefix. destruct (lget k L) as [v|]; [|reflexivity].
  unfold ship_name. rewrite Hp, Hv. now rewrite prefixed_neq.
Qed.

Lemma via_prefix_absent k : lval k L = "" -> via_prefix k = "".
Proof. intros H. unfold via_prefix. now rewrite (lget_none_of_lval k L (g_ne _ _ _ HG) H). Qed.

(* names the shard's Prometheus sees as the coordinator computed them *)
Lemma l1_plain k : k <> "" ->
  String.eqb k "__param__hash" = false -> String.eqb k "__param__jobName" = false ->
  String.eqb k "__param__scheme" = false -> String.eqb k "__scheme__" = false ->
  String.eqb k T_ = false -> String.eqb k I_ = false ->
  has_prefix invalid_prefix k = false -> has_prefix "__param_" k = false -> valid_name k = true ->
  lval k l1_ = lval k L.
Proof.
  intros Hk H1 H2 H3 H4 H5 H6 H7 H8 H9. rewrite l1_val by exact Hk. rewrite via_prefix_plain by assumption.
  change (String.eqb "" "") with true. cbv iota. rewrite P_val, pfirst_none by exact H8. rewrite H5, H6.
  now apply G_plain.
Qed.

Lemma l1_address : lval "__address__" l1_ = addr.
Proof. rewrite l1_plain by (try reflexivity; discriminate). apply (g_addr _ _ _ HG). Qed.
Lemma l1_path : lval "__metrics_path__" l1_ = lval "__metrics_path__" L.
Proof. apply l1_plain; try reflexivity; discriminate. Qed.
Lemma l1_instance : lval "instance" l1_ = lval "instance" L.
Proof. apply l1_plain; try reflexivity; discriminate. Qed.
Lemma l1_interval : lval I_ l1_ = jc_interval c /\ lval T_ l1_ = jc_timeout c.
Proof.
  split.
  - rewrite l1_val by discriminate. rewrite via_prefix_absent by apply (g_noivl _ _ _ HG).
    change (String.eqb "" "") with true. cbv iota. rewrite P_val, pfirst_none by reflexivity. reflexivity.
  - rewrite l1_val by discriminate. rewrite via_prefix_absent by apply (g_noivl _ _ _ HG).
    change (String.eqb "" "") with true. cbv iota. rewrite P_val, pfirst_none by reflexivity. reflexivity.
Qed.
Lemma l1_scheme_param : lval "__param__scheme" l1_ = lval "__scheme__" L.
Proof.
  rewrite l1_val by discriminate. rewrite via_prefix_absent by apply (g_noroute _ _ _ HG).
  change (String.eqb "" "") with true. cbv iota. rewrite P_val.
  assert (Hpf : pfirst ps "__param__scheme" = None).
  { change "__param__scheme" with ("__param_" ++ "_scheme"). rewrite pfirst_qval by exact Hps.
    destruct Hrps as (_ & _ & Hq). now rewrite Hq. }
  rewrite Hpf. change (String.eqb "__param__scheme" T_) with false. change (String.eqb "__param__scheme" I_) with false.
  cbv iota. apply G_scheme_param.
Qed.

(* ---- the labels the shard's Prometheus ends up with ---- *)
Lemma F_val k :
  lval k F_ = if String.eqb k "instance" && String.eqb (lval "instance" l1_) "" then addr
              else if has_prefix "__meta_" k then ""
              else if String.eqb k "__address__" then addr else lval k l1_.
Proof. apply lval_fin_labels. Qed.

Lemma F_visible k : has_prefix "__" k = false -> lval k F_ = lval k L.
Proof.
  intros Hv. destruct (visible_not_special k Hv) as (Hnp_ & Hnq & Hnm).
  rewrite F_val, Hnm, (neq_of_prefix k "__address__" Hv eq_refl).
  assert (Hinst : String.eqb (lval "instance" l1_) "" = false).
  { rewrite l1_instance. apply String.eqb_neq. apply (g_instance _ _ _ HG). }
  rewrite Hinst, andb_false_r.
  destruct (String.eqb_spec k "") as [->|Hk].
  - (* the empty name *)
    unfold l1_. rewrite lval_lm_fold by apply nd_P. change (String.eqb "" "") with true. cbv iota.
    rewrite P_val, pfirst_none by reflexivity. change (String.eqb "" T_) with false. change (String.eqb "" I_) with false. cbv iota.
    unfold G_. rewrite lval_group_other by reflexivity. unfold S_.
    rewrite lval_shipped_plain by (try apply (g_ship _ _ _ HG); reflexivity).
    change (valid_name "") with false. cbv iota. symmetry. apply (g_noempty_name _ _ _ HG).
  - rewrite l1_val by exact Hk.
    assert (HPk : lval k P_ = lval k S_).
    { rewrite P_val, pfirst_none by exact Hnq.
      rewrite (neq_of_prefix k T_ Hv eq_refl), (neq_of_prefix k I_ Hv eq_refl).
      unfold G_. apply lval_group_other; apply neq_of_prefix; auto. }
    assert (HSk : lval k S_ = if valid_name k then lval k L else "").
    { unfold S_. apply lval_shipped_plain; [apply (g_ship _ _ _ HG) | exact Hnp_ | exact Hnq]. }
    unfold via_prefix. destruct (lget k L) as [v|] eqn:El.
    + unfold ship_name. rewrite Hnq. destruct (valid_name k) eqn:Ev.
      * rewrite prefixed_neq. change (String.eqb "" "") with true. cbv iota. rewrite HPk, HSk. unfold lval. now rewrite El.
      * rewrite String.eqb_refl. assert (Hvne : v <> "") by (apply (g_ne _ _ _ HG k v); now apply lget_some_in).
        destruct (String.eqb_spec v ""); [contradiction|unfold lval; now rewrite El].
    + change (String.eqb "" "") with true. cbv iota. rewrite HPk, HSk. unfold lval. rewrite El. now destruct (valid_name k).
Qed.

Lemma F_address : lval "__address__" F_ = addr.
Proof. rewrite F_val. reflexivity. Qed.
Lemma F_path : lval "__metrics_path__" F_ = lval "__metrics_path__" L.
Proof. rewrite F_val. change (String.eqb "__metrics_path__" "instance") with false. cbn [andb]. apply l1_path. Qed.
Lemma F_scheme_param : lval "__param__scheme" F_ = lval "__scheme__" L.
Proof. rewrite F_val. change (String.eqb "__param__scheme" "instance") with false. cbn [andb]. apply l1_scheme_param. Qed.

Lemma param_key_facts x :
  String.eqb ("__param_" ++ x) "instance" = false /\ has_prefix "__meta_" ("__param_" ++ x) = false /\
  String.eqb ("__param_" ++ x) "__address__" = false /\ String.eqb ("__param_" ++ x) "__scheme__" = false /\
  String.eqb ("__param_" ++ x) T_ = false /\ String.eqb ("__param_" ++ x) I_ = false /\
  has_prefix invalid_prefix ("__param_" ++ x) = false /\ "__param_" ++ x <> "".
Proof. repeat split; try reflexivity. discriminate. Qed.

Lemma param_key_routing x : routing x = false ->
  String.eqb ("__param_" ++ x) "__param__hash" = false /\ String.eqb ("__param_" ++ x) "__param__jobName" = false /\
  String.eqb ("__param_" ++ x) "__param__scheme" = false.
Proof.
  unfold routing. intros H. apply orb_false_iff in H. destruct H as [H H3]. apply orb_false_iff in H. destruct H as [H1 H2].
  repeat split.
  - change "__param__hash" with ("__param_" ++ "_hash"). destruct (String.eqb_spec ("__param_" ++ x) ("__param_" ++ "_hash")) as [He|]; [|reflexivity].
    apply app_inj_l in He. subst x. discriminate.
  - change "__param__jobName" with ("__param_" ++ "_jobName"). destruct (String.eqb_spec ("__param_" ++ x) ("__param_" ++ "_jobName")) as [He|]; [|reflexivity].
    apply app_inj_l in He. subst x. discriminate.
  - change "__param__scheme" with ("__param_" ++ "_scheme"). destruct (String.eqb_spec ("__param_" ++ x) ("__param_" ++ "_scheme")) as [He|]; [|reflexivity].
    apply app_inj_l in He. subst x. discriminate.
Qed.

(* a query parameter's label on the shard: the coordinator's value when it has one, else the job's first value *)
Lemma F_param x : routing x = false ->
  lval ("__param_" ++ x) F_ =
  if String.eqb (lval ("__param_" ++ x) L) "" then match qval x ps with v0 :: _ => v0 | [] => "" end
  else lval ("__param_" ++ x) L.
Proof.
  intros Hr. set (k := "__param_" ++ x).
  destruct (param_key_facts x) as (Hi & Hm & Ha & Hs & Ht & Hii & Hp & Hk).
  destruct (param_key_routing x Hr) as (R1 & R2 & R3). fold k in Hi, Hm, Ha, Hs, Ht, Hii, Hp, Hk, R1, R2, R3.
  rewrite F_val, Hi, Hm, Ha. cbn [andb]. rewrite l1_val by exact Hk.
  assert (Hcfg : pfirst ps k = match qval x ps with v0 :: _ => Some v0 | [] => None end) by (apply pfirst_qval; exact Hps).
  assert (HPk : lval k P_ = match qval x ps with v0 :: _ => v0 | [] => lval k S_ end).
  { rewrite P_val, Hcfg. destruct (qval x ps) as [|v0 t]; [|reflexivity]. rewrite Ht, Hii. unfold G_.
    now apply lval_group_other. }
  assert (HSk : lval k S_ = match lget k L with
                            | Some v => match ship_name ps k v with Some n => if String.eqb k n then v else "" | None => "" end
                            | None => "" end).
  { unfold S_. rewrite lval_shipped by apply (g_ship _ _ _ HG). unfold src. now rewrite Hp. }
  assert (HL : lval k L = match lget k L with Some v => v | None => "" end) by reflexivity.
  rewrite HL. clear HL. unfold via_prefix. destruct (lget k L) as [v|] eqn:El.
  - assert (Hvne : v <> "") by (apply (g_ne _ _ _ HG k v); now apply lget_some_in).
    assert (Hvalid : valid_name k = true).
    { apply (sp_param_valid _ _ (g_ship _ _ _ HG) k v); [now apply lget_some_in | apply has_prefix_app]. }
    destruct (String.eqb_spec v ""); [contradiction|].
    assert (Hpk : has_prefix "__param_" k = true) by apply has_prefix_app.
    assert (Hdk : drop_prefix "__param_" k = x) by apply drop_prefix_app.
    unfold ship_name in *. rewrite Hpk, Hdk in *.
    unfold qval in HPk, Hcfg |- *.
    destruct (find (fun p : string * list string => String.eqb (fst p) x) ps) as [[a [|v0 t]]|] eqn:Ef.
    + (* configured without values: shipped under its own name *)
      rewrite Hvalid, prefixed_neq. change (String.eqb "" "") with true. cbv iota.
      rewrite HPk, HSk, Hvalid, String.eqb_refl. reflexivity.
    + destruct (String.eqb_spec v v0) as [->|Hne].
      * (* still the job's value: not shipped, set again by the shard *)
        change (String.eqb "" "") with true. cbv iota. now rewrite HPk.
      * (* overridden: shipped under the prefix, restored by the labelmap rule *)
        rewrite (valid_prefixed k Hvalid), String.eqb_refl. destruct (String.eqb_spec v ""); [contradiction|reflexivity].
    + rewrite Hvalid, prefixed_neq. change (String.eqb "" "") with true. cbv iota.
      rewrite HPk, HSk, Hvalid, String.eqb_refl. reflexivity.
  - change (String.eqb "" "") with true. cbv iota. rewrite HPk, HSk. now destruct (qval x ps) as [|v0 t].
Qed.

(* ---- the shard's Prometheus accepts the target exactly when the job's interval settings are acceptable ---- *)
Lemma sharded_from_eq :
  sharded_from np aok iok c hash L =
  if iok (jc_interval c) (jc_timeout c) then Some (visible F_, translate_url (target_url ps F_)) else None.
Proof.
  clear Hiok. unfold sharded_from. fold S_. fold G_. rewrite populate_unfold, labelmap_unfold. fold P_. fold l1_.
  unfold finish, port_suffix. rewrite l1_address.
  destruct (String.eqb_spec addr "") as [E|_]; [exfalso; now apply (g_addr_ne _ _ _ HG)|].
  rewrite Hnp, append_nil_r, Haok. cbn [negb andb].
  destruct l1_interval as [-> ->]. fold F_. now destruct (iok (jc_interval c) (jc_timeout c)).
Qed.

Lemma core_visible k : lval k (visible F_) = lval k (visible L).
Proof.
  rewrite lval_visible by apply nd_F. rewrite lval_visible by apply (sp_nd _ _ (g_ship _ _ _ HG)).
  destruct (has_prefix "__" k) eqn:E; [reflexivity|now apply F_visible].
Qed.

Lemma qget_qval k q : qget k q = match qval k q with v :: _ => v | [] => "" end.
Proof. unfold qget, qval. now destruct (find _ q) as [[a [|v t]]|]. Qed.

Lemma core_scheme : u_scheme (translate_url (target_url ps F_)) = lval "__scheme__" L.
Proof.
  cbn [translate_url u_scheme]. rewrite qget_qval, qval_target_url by (try apply nd_F; exact Hps).
  change ("__param_" ++ "_scheme") with "__param__scheme".
  rewrite lget_of_lval by apply ne_F. rewrite F_scheme_param.
  destruct (String.eqb_spec (lval "__scheme__" L) "") as [E|_]; [exfalso; now apply (g_scheme _ _ _ HG)|reflexivity].
Qed.

Lemma core_host : u_host (translate_url (target_url ps F_)) = addr.
Proof. cbn [translate_url u_host target_url]. apply F_address. Qed.
Lemma core_path : u_path (translate_url (target_url ps F_)) = lval "__metrics_path__" L.
Proof. cbn [translate_url u_path target_url]. apply F_path. Qed.

Lemma core_query x :
  qval x (u_query (translate_url (target_url ps F_))) = qval x (u_query (target_url ps L)).
Proof.
  rewrite qval_translate. rewrite (qval_target_url x ps L) by (try apply (sp_nd _ _ (g_ship _ _ _ HG)); exact Hps).
  destruct (routing x) eqn:Er.
  - destruct (g_noroute _ _ _ HG) as (N1 & N2 & N3). destruct Hrps as (Q1 & Q2 & Q3).
    unfold routing in Er. apply orb_true_iff in Er. destruct Er as [Er|Er]; [apply orb_true_iff in Er; destruct Er as [Er|Er]|];
      apply String.eqb_eq in Er; subst x.
    + change ("__param_" ++ "_hash") with "__param__hash". rewrite (lget_none_of_lval _ _ (g_ne _ _ _ HG) N1). now rewrite Q1.
    + change ("__param_" ++ "_jobName") with "__param__jobName". rewrite (lget_none_of_lval _ _ (g_ne _ _ _ HG) N2). now rewrite Q2.
    + change ("__param_" ++ "_scheme") with "__param__scheme". rewrite (lget_none_of_lval _ _ (g_ne _ _ _ HG) N3). now rewrite Q3.
  - rewrite qval_target_url by (try apply nd_F; exact Hps).
    rewrite lget_of_lval by apply ne_F. rewrite (lget_of_lval _ L) by apply (g_ne _ _ _ HG).
    rewrite (F_param x Er).
    destruct (String.eqb (lval ("__param_" ++ x) L) "") eqn:E.
    + destruct (qval x ps) as [|v0 t]; [reflexivity|]. destruct (String.eqb v0 ""); reflexivity.
    + now rewrite E.
Qed.
End Core.

(* ------------------------------------------------------------------ the main theorem *)
(* two results are the same target: both absent, or the same visible labels (as a map from names to values), the same
   scheme, host and path, and the same values for every query key *)
Definition lab_equiv (a b : labels) : Prop := forall k, lval k a = lval k b.
Definition url_equiv (u1 u2 : url) : Prop :=
  u_scheme u1 = u_scheme u2 /\ u_host u1 = u_host u2 /\ u_path u1 = u_path u2 /\
  forall x, qval x (u_query u1) = qval x (u_query u2).
Definition res_equiv (r1 r2 : option (labels * url)) : Prop :=
  match r1, r2 with
  | None, None => True
  | Some (l1, u1), Some (l2, u2) => lab_equiv l1 l2 /\ url_equiv u1 u2
  | _, _ => False
  end.

(* what the coordinator's relabelled label set must look like for the round trip through the sidecar *)
Record relabelled_ok (l : labels) : Prop := {
  r_nd : nd l;
  r_ne : ne l;
  r_job : lval "job" l <> "";
  r_path : lval "__metrics_path__" l <> "";
  r_scheme : lval "__scheme__" l <> "";
  r_noprefix : forall k v, In (k, v) l -> has_prefix invalid_prefix k = false;
  r_param_valid : forall k v, In (k, v) l -> has_prefix "__param_" k = true -> valid_name k = true;
  r_noroute : lval "__param__hash" l = "" /\ lval "__param__jobName" l = "" /\ lval "__param__scheme" l = "";
  r_noempty_name : lval "" l = "";
}.

Lemma in_lb_set k v m k' v' : In (k', v') (lb_set k v m) -> k' = k \/ In (k', v') m.
Proof.
  unfold lb_set, ldel. destruct (String.eqb v "").
  - intros H. apply filter_In in H. tauto.
  - intros [H|H]; [left; congruence|]. apply filter_In in H. tauto.
Qed.

Lemma in_fin_labels l addr k v : In (k, v) (fin_labels l addr) -> k = "instance" \/ k = "__address__" \/ In (k, v) l.
Proof.
  unfold fin_labels, del_meta. destruct (String.eqb (lval "instance" l) "").
  - intros H. apply in_lb_set in H. destruct H as [H|H]; [now left|]. apply filter_In in H. destruct H as [H _].
    apply in_lb_set in H. tauto.
  - intros H. apply filter_In in H. destruct H as [H _]. apply in_lb_set in H. tauto.
Qed.

Lemma good_fin ps Lc addr : relabelled_ok Lc -> lval I_ Lc = "" -> lval T_ Lc = "" -> addr <> "" ->
  good ps (fin_labels Lc addr) addr.
Proof.
  intros HL HI HT Ha. constructor.
  - constructor.
    + apply nd_fin_labels. apply (r_nd _ HL).
    + intros k v Hin. apply in_fin_labels in Hin. destruct Hin as [->|[->|Hin]]; [reflexivity|reflexivity|].
      now apply (r_noprefix _ HL k v).
    + intros k v Hin Hp. apply in_fin_labels in Hin. destruct Hin as [->|[->|Hin]]; [discriminate|discriminate|].
      now apply (r_param_valid _ HL k v).
  - apply ne_fin_labels. apply (r_ne _ HL).
  - rewrite lval_fin_labels. cbn. apply (r_job _ HL).
  - rewrite lval_fin_labels. cbn. apply (r_path _ HL).
  - rewrite lval_fin_labels. cbn. apply (r_scheme _ HL).
  - rewrite lval_fin_labels. reflexivity.
  - exact Ha.
  - rewrite lval_fin_labels. change (String.eqb "instance" "instance") with true. cbn [andb].
    destruct (String.eqb_spec (lval "instance" Lc) "") as [E|E]; [exact Ha|exact E].
  - intros k Hm. rewrite lval_fin_labels, Hm.
    destruct (String.eqb_spec k "instance") as [->|]; [discriminate|reflexivity].
  - split; rewrite lval_fin_labels; cbn; assumption.
  - destruct (r_noroute _ HL) as (N1 & N2 & N3). repeat split; rewrite lval_fin_labels; cbn; assumption.
  - rewrite lval_fin_labels. cbn. apply (r_noempty_name _ HL).
Qed.

Section Main.
Variable R : labels -> option labels.
Variables (np aok : string -> bool) (iok : string -> string -> bool).
Variable c : jobcfg.
Variable hash : N.
Variable d : labels.
Notation ps := (jc_params c).
(* the job: unique parameter keys, none of them a routing name; interval and timeout are set *)
Hypothesis Hps : ndq ps.
Hypothesis Hrps : qval "_hash" ps = [] /\ qval "_jobName" ps = [] /\ qval "_scheme" ps = [].
Hypothesis Hivne : jc_interval c <> "" /\ jc_timeout c <> "".
(* addPort: an address that got its port no longer needs one *)
Hypothesis Hnp_add : forall a, np a = true -> np (a ++ ":80") = false /\ np (a ++ ":443") = false.

(* both relabel runs succeed: Lp with the interval labels in the input (one Prometheus), Lc without (the coordinator) *)
Variables Lp Lc : labels.
Hypothesis HRp : R (pre true c d) = Some Lp.
Hypothesis HRc : R (pre false c d) = Some Lc.
(* the relabel rules neither read nor write the two interval labels *)
Hypothesis Hrel : forall k, lval k Lp = if String.eqb k I_ then jc_interval c else if String.eqb k T_ then jc_timeout c else lval k Lc.
Hypothesis HI : lval I_ Lc = "".
Hypothesis HT : lval T_ Lc = "".
Hypothesis Hnd_p : nd Lp.
Hypothesis Hne_p : ne Lp.
Hypothesis HLc : relabelled_ok Lc.

Theorem sharded_equiv_plain : res_equiv (sharded R np aok iok c hash d) (plain R np aok iok c d).
Proof.
  unfold sharded, coordinator_labels, plain. rewrite !populate_unfold, HRp, HRc. unfold finish.
  assert (Ea : lval "__address__" Lp = lval "__address__" Lc) by (rewrite Hrel; reflexivity).
  assert (Es : lval "__scheme__" Lp = lval "__scheme__" Lc) by (rewrite Hrel; reflexivity).
  assert (Epo : port_suffix np Lp = port_suffix np Lc) by (unfold port_suffix; now rewrite Ea, Es).
  rewrite Ea, Epo. destruct (String.eqb_spec (lval "__address__" Lc) "") as [|Hane]; [exact I|].
  destruct (port_suffix np Lc) as [suffix|] eqn:Eps; [|exact I].
  set (addr := lval "__address__" Lc ++ suffix).
  destruct (aok addr) eqn:Eaok; [|exact I]. cbn [negb andb].
  assert (Haddr : addr <> "").
  { unfold addr. destruct (lval "__address__" Lc); [contradiction|discriminate]. }
  assert (Hnp : np addr = false).
  { unfold port_suffix in Eps. destruct (np (lval "__address__" Lc)) eqn:En.
    - destruct (Hnp_add _ En) as [H80 H443].
      destruct (_ || _); [injection Eps as <-; exact H80|].
      destruct (String.eqb _ "https"); [injection Eps as <-; exact H443|discriminate].
    - injection Eps as <-. unfold addr. now rewrite append_nil_r. }
  pose proof (good_fin ps Lc addr HLc HI HT Haddr) as HG.
  rewrite (sharded_from_eq np aok iok c hash (fin_labels Lc addr) addr HG Hnp Eaok).
  rewrite (Hrel I_), (Hrel T_). change (String.eqb I_ I_) with true. change (String.eqb T_ I_) with false.
  change (String.eqb T_ T_) with true. cbv iota.
  destruct (iok (jc_interval c) (jc_timeout c)); [|exact I].
  cbn [res_equiv]. split; [|split; [|split; [|split]]].
  - intros k. rewrite (core_visible c hash _ addr HG).
    rewrite !lval_visible by (apply nd_fin_labels; first [apply (r_nd _ HLc) | exact Hnd_p]).
    destruct (has_prefix "__" k) eqn:Hv; [reflexivity|].
    rewrite !lval_fin_labels. rewrite (Hrel "instance"). change (String.eqb "instance" I_) with false.
    change (String.eqb "instance" T_) with false. cbv iota.
    rewrite (Hrel k), (neq_of_prefix k I_ Hv eq_refl), (neq_of_prefix k T_ Hv eq_refl). reflexivity.
  - rewrite (core_scheme c hash _ addr HG Hps Hrps). cbn [target_url u_scheme]. rewrite !lval_fin_labels. cbn. now rewrite Es.
  - rewrite core_host. cbn [target_url u_host]. rewrite lval_fin_labels. reflexivity.
  - rewrite (core_path c hash _ addr HG). cbn [target_url u_path]. rewrite !lval_fin_labels. cbn. rewrite (Hrel "__metrics_path__"). reflexivity.
  - intros x. rewrite (core_query c hash _ addr HG Hps Hrps).
    rewrite !qval_target_url by (first [exact Hps | apply nd_fin_labels; first [apply (r_nd _ HLc) | exact Hnd_p]]).
    rewrite !lget_of_lval by (apply ne_fin_labels; first [apply (r_ne _ HLc) | exact Hne_p]).
    destruct (param_key_facts x) as (Hi & Hm & Hadr & Hs & Ht & Hii & Hp & Hk).
    rewrite !lval_fin_labels, Hi, Hm, Hadr. cbn [andb]. rewrite (Hrel ("__param_" ++ x)), Hii, Ht. reflexivity.
Qed.
End Main.

(* ------------------------------------------------------------------ the hypotheses as a computable check *)
Fixpoint nodupb (l : list string) : bool :=
  match l with [] => true | x :: r => negb (existsb (String.eqb x) r) && nodupb r end.
Lemma nodupb_sound l : nodupb l = true -> NoDup l.
Proof.
  induction l as [|x r IH]; intros H; [constructor|]. cbn [nodupb] in H. apply andb_true_iff in H. destruct H as [Hx Hr].
  constructor; [|auto]. intros Hin. apply negb_true_iff in Hx.
  assert (existsb (String.eqb x) r = true) by (apply existsb_exists; exists x; split; [exact Hin|apply String.eqb_refl]).
  congruence.
Qed.
Definition ndb (m : labels) : bool := nodupb (map fst m).
Definition neb (m : labels) : bool := forallb (fun kv => negb (String.eqb (snd kv) "")) m.
Lemma neb_sound m : neb m = true -> ne m.
Proof.
  intros H k v Hin E. unfold neb in H. rewrite forallb_forall in H. specialize (H _ Hin). cbn in H. subst v. discriminate.
Qed.

Definition relabelled_okb (l : labels) : bool :=
  ndb l && neb l && negb (String.eqb (lval "job" l) "") && negb (String.eqb (lval "__metrics_path__" l) "") &&
  negb (String.eqb (lval "__scheme__" l) "") &&
  forallb (fun kv => negb (has_prefix invalid_prefix (fst kv))) l &&
  forallb (fun kv => implb (has_prefix "__param_" (fst kv)) (valid_name (fst kv))) l &&
  String.eqb (lval "__param__hash" l) "" && String.eqb (lval "__param__jobName" l) "" && String.eqb (lval "__param__scheme" l) "" &&
  String.eqb (lval "" l) "".

Ltac split_andb H :=
  repeat match type of H with
         | (_ && _) = true => let H2 := fresh "Hb" in apply andb_true_iff in H; destruct H as [H H2]
         end.

Lemma relabelled_okb_sound l : relabelled_okb l = true -> relabelled_ok l.
Proof.
  unfold relabelled_okb. intros H. split_andb H.
  constructor.
  - now apply nodupb_sound.
  - now apply neb_sound.
  - intros E. rewrite E in *. discriminate.
  - intros E. rewrite E in *. discriminate.
  - intros E. rewrite E in *. discriminate.
  - intros k v Hin. match goal with Hf : forallb (fun kv => negb (has_prefix invalid_prefix (fst kv))) l = true |- _ =>
      rewrite forallb_forall in Hf; specialize (Hf _ Hin); cbn in Hf; now apply negb_true_iff in Hf end.
  - intros k v Hin Hp. match goal with Hf : forallb (fun kv => implb _ _) l = true |- _ =>
      rewrite forallb_forall in Hf; specialize (Hf _ Hin); cbn [fst] in Hf; rewrite Hp in Hf; exact Hf end.
  - repeat split; now apply String.eqb_eq.
  - now apply String.eqb_eq.
Qed.

Lemma lval_notin k m : ~ In k (map fst m) -> lval k m = "".
Proof.
  unfold lval. induction m as [|[k' v] r IH]; intros H; [reflexivity|]. cbn [lget].
  destruct (String.eqb_spec k k') as [->|]; [exfalso; apply H; now left|]. apply IH. intros Hin. apply H. now right.
Qed.

Definition relb (c : jobcfg) (Lp Lc : labels) : bool :=
  forallb (fun k => String.eqb (lval k Lp)
                      (if String.eqb k I_ then jc_interval c else if String.eqb k T_ then jc_timeout c else lval k Lc))
          (I_ :: T_ :: map fst Lp ++ map fst Lc).

Lemma relb_sound c Lp Lc : relb c Lp Lc = true ->
  forall k, lval k Lp = if String.eqb k I_ then jc_interval c else if String.eqb k T_ then jc_timeout c else lval k Lc.
Proof.
  unfold relb. intros H k. rewrite forallb_forall in H.
  destruct (in_dec string_dec k (I_ :: T_ :: map fst Lp ++ map fst Lc)) as [Hin|Hout].
  - now apply String.eqb_eq, H.
  - assert (k <> I_ /\ k <> T_ /\ ~ In k (map fst Lp) /\ ~ In k (map fst Lc)) as (N1 & N2 & N3 & N4).
    { repeat split; intros E; apply Hout; [left; now subst|right; left; now subst|right; right; apply in_or_app; now left|right; right; apply in_or_app; now right]. }
    apply String.eqb_neq in N1, N2. rewrite N1, N2. now rewrite !lval_notin.
Qed.

Definition cfg_okb (c : jobcfg) : bool :=
  nodupb (map fst (jc_params c)) &&
  match qval "_hash" (jc_params c), qval "_jobName" (jc_params c), qval "_scheme" (jc_params c) with [], [], [] => true | _, _, _ => false end.

Definition hyp_okb (R : labels -> option labels) (c : jobcfg) (d : labels) : bool :=
  match R (pre true c d), R (pre false c d) with
  | Some Lp, Some Lc =>
    relb c Lp Lc && String.eqb (lval I_ Lc) "" && String.eqb (lval T_ Lc) "" && ndb Lp && neb Lp && relabelled_okb Lc
  | None, None => true
  | _, _ => false
  end.

Theorem sharded_equiv_plain_checked R np aok iok c hash d :
  (forall a, np a = true -> np (a ++ ":80") = false /\ np (a ++ ":443") = false) ->
  cfg_okb c = true -> hyp_okb R c d = true ->
  res_equiv (sharded R np aok iok c hash d) (plain R np aok iok c d).
Proof.
  intros Hnp Hc Hh. unfold cfg_okb in Hc. apply andb_true_iff in Hc. destruct Hc as [Hps Hq].
  assert (Hrps : qval "_hash" (jc_params c) = [] /\ qval "_jobName" (jc_params c) = [] /\ qval "_scheme" (jc_params c) = []).
  { destruct (qval "_hash" _); [|discriminate]. destruct (qval "_jobName" _); [|discriminate]. destruct (qval "_scheme" _); [|discriminate]. auto. }
  unfold hyp_okb in Hh.
  destruct (R (pre true c d)) as [Lp|] eqn:Ep; destruct (R (pre false c d)) as [Lc|] eqn:Ec; try discriminate.
  - split_andb Hh.
    apply (sharded_equiv_plain R np aok iok c hash d (nodupb_sound _ Hps) Hrps Hnp Lp Lc Ep Ec).
    + now apply relb_sound.
    + now apply String.eqb_eq.
    + now apply String.eqb_eq.
    + now apply nodupb_sound.
    + now apply neb_sound.
    + now apply relabelled_okb_sound.
  - unfold sharded, coordinator_labels, plain. rewrite !populate_unfold, Ep, Ec. exact I.
Qed.

(* the port test used in the correspondence run meets the hypothesis on addPort *)
Lemma all_chars_app f a b : all_chars f (a ++ b) = all_chars f a && all_chars f b.
Proof. induction a as [|ch a IH]; [reflexivity|]. cbn [append all_chars]. now rewrite IH, andb_assoc. Qed.
Lemma last_char_app a b : b <> EmptyString -> last_char (a ++ b) = last_char b.
Proof.
  intros Hb. induction a as [|ch a IH]; [reflexivity|]. cbn [append last_char]. rewrite IH.
  destruct b as [|c0 b']; [congruence|]. cbn [last_char]. now destruct (last_char b').
Qed.
Lemma x_needs_port_add a : x_needs_port a = true -> x_needs_port (a ++ ":80") = false /\ x_needs_port (a ++ ":443") = false.
Proof.
  intros _. unfold x_needs_port, contains_char, bracketed. rewrite !all_chars_app, !last_char_app by discriminate.
  cbn [last_char]. split; apply orb_false_iff; (split; [|apply andb_false_iff; right; reflexivity]);
    apply negb_false_iff; apply negb_true_iff; apply andb_false_iff; right; reflexivity.
Qed.

(* ---- how often the theorem applies to the inputs of the correspondence run (statistics, printed into the evidence) ---- *)
Definition thm_hyp (c : tr_case) (d : labels) : bool :=
  cfg_okb (tc_cfg c) && hyp_okb (relabel_rules (tc_rules c)) (tc_cfg c) d.
Definition st_entries (c : tr_case) : nat := if tc_modelled c then length (tc_discovered c) else 0.
Definition st_thm_applies (c : tr_case) : nat := if tc_modelled c then length (filter (thm_hyp c) (tc_discovered c)) else 0.
Definition st_thm_applies_active (c : tr_case) : nat :=
  if tc_modelled c
  then length (filter (fun d => thm_hyp c d &&
                 match plain (relabel_rules (tc_rules c)) x_needs_port x_addr_ok x_interval_ok (tc_cfg c) d with Some _ => true | None => false end)
               (tc_discovered c))
  else 0.
