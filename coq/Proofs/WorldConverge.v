(* Proofs/WorldConverge.v — C03, bounded convergence of the "one shard, normal state" half in the regime without relief and
   without scale-down (alleviation disabled, max-idle 0), from ANY well-formed world, under EVERY schedule:
   a scrape round makes any world ripe; a fault-free cycle on a ripe world gives a clean world (every held target is a
   discovered one, in normal state, on exactly one shard); so from the second calm round on the world is clean, for ever. *)
From KV Require Import Base.Util Base.AMap Base.Sched Model.Coordinator Model.CoordCheck Model.Sidecar Model.World
  Proofs.CoordBasics Proofs.CoordEvents Proofs.CoordC01 Proofs.CoordCycle Proofs.CoordC07 Proofs.CoordNoDup Proofs.CoordStable
  Proofs.CoordRipe Proofs.SidecarProofs Proofs.WorldProofs Proofs.WorldNoGap.
Local Open Scope list_scope.
Local Open Scope Z_scope.

Definition status_at (w : world) (k : nat) : amap sstat := sc_status (ws_sc (nth k (w_shards w) dws)).

Definition wclean (w : world) : Prop :=
  forall k h e, (k < length (w_shards w))%nat -> afind h (status_at w k) = Some e ->
    ss_state e = Normal /\ In h (w_active w) /\
    forall j, j <> k -> (j < length (w_shards w))%nat -> afind h (status_at w j) = None.

Definition wripe (w : world) : Prop :=
  forall k h e, (k < length (w_shards w))%nat -> afind h (status_at w k) = Some e -> (3 <= ss_times e)%N.

Record regime (o : opts) : Prop := {
  rg_noall : disable_alleviate o = true;
  rg_idle : max_idle o = 0;
  rg_proc : 0 < max_proc o;
  rg_mm : min_shard o <= max_shard o;
}.

Lemma regime_main o tru w f sch : regime o ->
  o_skipped (cycle o (cycle_input tru w f) sch) = false /\ o_divzero (cycle o (cycle_input tru w f) sch) = false /\
  o_scales (cycle o (cycle_input tru w f) sch) <> [].
Proof.
  intros R. unfold cycle, cycle_sst. cbn [i_scale1_ok cycle_input negb]. rewrite Bool.andb_false_r.
  assert (Hp : (max_proc o =? 0) = false) by (apply Z.eqb_neq; pose proof (rg_proc o R); lia).
  rewrite Hp, Bool.andb_false_r. cbn [fst o_skipped o_divzero o_scales]. repeat split.
  intros H. apply app_eq_nil in H. destruct H as [_ H]. discriminate.
Qed.

Lemma regime_last_scale o tru w f sch : regime o ->
  last (o_scales (cycle o (cycle_input tru w f) sch)) 0 = clamp o (st_scale (run_stages o (cycle_input tru w f) (sst_of sch))).
Proof.
  intros R. unfold cycle, cycle_sst. cbn [i_scale1_ok cycle_input negb]. rewrite Bool.andb_false_r.
  assert (Hp : (max_proc o =? 0) = false) by (apply Z.eqb_neq; pose proof (rg_proc o R); lia).
  rewrite Hp, Bool.andb_false_r. cbn [fst o_scales]. apply last_last.
Qed.

Lemma fresh_status now : sc_status (ws_sc (fresh_shard now)) = [].
Proof. reflexivity. Qed.

(* ---- a fault-free cycle on a ripe world gives a clean world ---- *)
Theorem ripe_cycle_wclean o tru w sch :
  regime o -> winv o w -> NoDup (w_active w) -> wripe w -> wclean (model_cycle o tru w no_faults sch).
Proof.
  intros R [Hw Hs Hl] Hnda Hripe.
  destruct (regime_main o tru w no_faults sch R) as (Hsk & Hdz & Hsc).
  pose proof (ripe_world_becomes_clean o tru w sch Hw (rg_idle o R) Hnda Hripe (or_introl (rg_noall o R)) Hsk Hdz) as Hc.
  cbn zeta in Hc.
  set (out := cycle o (cycle_input tru w no_faults) sch) in *.
  set (n := length (w_shards w)).
  set (z := zip_posts tru 0 (w_shards w) (o_posts out) w no_faults).
  assert (Hzl : length z = n) by apply zip_length.
  assert (Hnew : exists m, w_shards (model_cycle o tru w no_faults sch) = z ++ repeat (fresh_shard (w_now w)) m).
  { unfold model_cycle, apply_cycle. fold out. cbn [w_shards]. fold z.
    destruct (o_scales out) as [|x r] eqn:E; [congruence|].
    assert (Hin : In (last (x :: r) 0) (o_scales out)) by (rewrite E; apply last_in; discriminate).
    apply (c07_no_shrink o _ sch _) in Hin; [| rewrite inputs_length; exact Hl | left; apply (rg_idle o R)].
    rewrite inputs_length in Hin. unfold rescale. fold n in Hin.
    destruct (Nat.leb_spec (Z.to_nat (last (x :: r) 0)) (length z)) as [Hle|Hgt].
    - exists 0%nat. cbn [repeat]. rewrite app_nil_r. apply firstn_all2. lia.
    - eexists. reflexivity. }
  destruct Hnew as [m Hnew].
  assert (Hst : forall k, status_at (model_cycle o tru w no_faults sch) k =
     if Nat.ltb k n then sc_status (ws_sc (after_cycle_shard tru w no_faults k (nth k (w_shards w) dws) (nth k (o_posts out) None))) else []).
  { intros k. unfold status_at. rewrite Hnew. destruct (Nat.ltb_spec k n) as [Hk|Hk].
    - rewrite app_nth1 by lia. unfold z. now rewrite nth_zip by exact Hk.
    - rewrite app_nth2 by lia.
      destruct (nth_in_or_default (k - length z) (repeat (fresh_shard (w_now w)) m) dws) as [Hin|Hd].
      + apply repeat_spec in Hin. now rewrite Hin.
      + now rewrite Hd. }
  intros k h e Hk Hf. rewrite Hst in Hf.
  destruct (Nat.ltb_spec k n) as [Hkn|Hkn]; [|discriminate].
  destruct (Hc k h e Hkn Hf) as (Hn & Hact & Hoth).
  split; [exact Hn|]. split; [exact Hact|].
  intros j Hj Hjl. rewrite Hst. destruct (Nat.ltb_spec j n) as [Hjn|Hjn]; [|reflexivity].
  now apply Hoth.
Qed.

(* ---- scrape rounds: every entry's counter grows by n, its state and the key sets stay ---- *)
Lemma scrape_shard_entry tru n s h : wf (ws_sc s) ->
  match afind h (sc_status (ws_sc (scrape_shard tru n s))) with
  | Some e' => exists e, afind h (sc_status (ws_sc s)) = Some e /\ ss_times e' = (ss_times e + N.of_nat n)%N /\ ss_state e' = ss_state e
  | None => afind h (sc_status (ws_sc s)) = None
  end.
Proof.
  intros Hw. destruct (afind h (sc_status (ws_sc s))) as [e|] eqn:E.
  - destruct (scrape_round_counts tru n s h e Hw E) as (e' & He' & Ht & Hs). rewrite He'. exists e. auto.
  - assert (Hn : afind h (sc_status (ws_sc (scrape_shard tru n s))) = None).
    { apply afind_none_keys. apply afind_none_keys in E. unfold scrape_shard. cbn [ws_sc]. now rewrite fold_scrape_keys. }
    now rewrite Hn.
Qed.

Lemma status_scrape tru n w k : status_at (lstep_det tru w (LScrapeAll n)) k = sc_status (ws_sc (scrape_shard tru n (nth k (w_shards w) dws))).
Proof.
  unfold status_at, lstep_det. cbn [w_shards].
  destruct (Nat.lt_ge_cases k (length (w_shards w))) as [Hk|Hk].
  - now rewrite (nth_indep _ dws (scrape_shard tru n dws)), map_nth by (now rewrite map_length).
  - rewrite !nth_overflow by (rewrite ?map_length; exact Hk). reflexivity.
Qed.

Lemma wf_at w k : wwf w -> wf (ws_sc (nth k (w_shards w) dws)).
Proof.
  intros Hw. destruct (nth_in_or_default k (w_shards w) dws) as [Hin|Hd].
  - unfold wwf in Hw. rewrite Forall_forall in Hw. now apply Hw.
  - rewrite Hd. apply wf_fresh.
Qed.

Theorem scrape_makes_ripe tru w n : wwf w -> (3 <= n)%nat -> wripe (lstep_det tru w (LScrapeAll n)).
Proof.
  intros Hw Hn k h e _ Hf. rewrite status_scrape in Hf.
  pose proof (scrape_shard_entry tru n (nth k (w_shards w) dws) h (wf_at w k Hw)) as H. rewrite Hf in H.
  destruct H as (e0 & _ & Ht & _). lia.
Qed.

Theorem scrape_keeps_clean tru w n : wwf w -> wclean w -> wclean (lstep_det tru w (LScrapeAll n)).
Proof.
  intros Hw Hc k h e Hk Hf.
  assert (Hlen : length (w_shards (lstep_det tru w (LScrapeAll n))) = length (w_shards w)) by (cbn; apply map_length).
  rewrite Hlen in *. rewrite status_scrape in Hf.
  pose proof (scrape_shard_entry tru n (nth k (w_shards w) dws) h (wf_at w k Hw)) as H. rewrite Hf in H.
  destruct H as (e0 & Hf0 & _ & Hs).
  destruct (Hc k h e0 Hk Hf0) as (Hn & Hact & Hoth).
  split; [congruence|]. split; [exact Hact|].
  intros j Hj Hjl. rewrite status_scrape.
  pose proof (scrape_shard_entry tru n (nth j (w_shards w) dws) h (wf_at w j Hw)) as H.
  destruct (afind h (sc_status (ws_sc (scrape_shard tru n (nth j (w_shards w) dws))))) as [e'|]; [|reflexivity].
  destruct H as (e1 & Hf1 & _). specialize (Hoth j Hj Hjl). unfold status_at in Hoth. congruence.
Qed.

Lemma tick_keeps_clean tru w dt : wclean w -> wclean (lstep_det tru w (LTick dt)).
Proof. intros Hc. exact Hc. Qed.
Lemma tick_keeps_ripe tru w dt : wripe w -> wripe (lstep_det tru w (LTick dt)).
Proof. intros Hc. exact Hc. Qed.

(* ---- calm rounds: a fault-free cycle (any schedule), three scrapes of everything, a tick ---- *)
Definition calm_round_with (o : opts) (tru : amap truth) (w : world) (sch : list nat) : world :=
  lstep_det tru (lstep_det tru (model_cycle o tru w no_faults sch) (LScrapeAll 3)) (LTick 400).

Lemma active_cycle o tru w f sch : w_active (model_cycle o tru w f sch) = w_active w.
Proof. reflexivity. Qed.

Lemma round_winv o tru w sch : regime o -> winv o w -> winv o (calm_round_with o tru w sch).
Proof.
  intros R Hi. unfold calm_round_with. apply winv_det, winv_det. apply winv_cycle; [apply (rg_mm o R)|exact Hi].
Qed.

Lemma round_ripe o tru w sch : regime o -> winv o w -> wripe (calm_round_with o tru w sch).
Proof.
  intros R Hi. unfold calm_round_with. apply tick_keeps_ripe. apply scrape_makes_ripe; [|lia].
  apply (wi_wf o). apply winv_cycle; [apply (rg_mm o R)|exact Hi].
Qed.

Lemma round_clean o tru w sch : regime o -> winv o w -> NoDup (w_active w) -> wripe w -> wclean (calm_round_with o tru w sch).
Proof.
  intros R Hi Hnd Hr. unfold calm_round_with. apply tick_keeps_clean. apply scrape_keeps_clean.
  - apply (wi_wf o). apply winv_cycle; [apply (rg_mm o R)|exact Hi].
  - now apply ripe_cycle_wclean.
Qed.

(* from ANY well-formed world, after the first calm round the world is ripe, after the second it is clean, and it stays
   clean for every further round — whatever schedule each cycle follows *)
Theorem clean_from_the_second_round o tru w schs :
  regime o -> winv o w -> NoDup (w_active w) -> (2 <= length schs)%nat ->
  wclean (fold_left (calm_round_with o tru) schs w).
Proof.
  intros R Hi Hnd Hlen.
  assert (Hact : forall l w0, w_active (fold_left (calm_round_with o tru) l w0) = w_active w0).
  { induction l as [|s r IH]; intros w0; cbn [fold_left]; [reflexivity|]. now rewrite IH. }
  assert (Hgen : forall l w0, winv o w0 -> NoDup (w_active w0) -> wripe w0 -> l <> [] ->
            wclean (fold_left (calm_round_with o tru) l w0) /\ wripe (fold_left (calm_round_with o tru) l w0)).
  { induction l as [|s r IH]; intros w0 Hi0 Hnd0 Hr0 Hne; [congruence|]. cbn [fold_left].
    destruct r as [|s' r'].
    - cbn [fold_left]. split; [now apply round_clean | now apply round_ripe].
    - apply IH; [now apply round_winv | exact Hnd0 | now apply round_ripe | discriminate]. }
  destruct schs as [|s1 [|s2 r]]; cbn [length] in Hlen; try lia.
  cbn [fold_left]. change (fold_left (calm_round_with o tru) r (calm_round_with o tru (calm_round_with o tru w s1) s2))
    with (fold_left (calm_round_with o tru) (s2 :: r) (calm_round_with o tru w s1)).
  apply Hgen; [now apply round_winv | exact Hnd | now apply round_ripe | discriminate].
Qed.

(* ================================================================== sizes are counts *)
From KV Require Import Base.Float64 Proofs.CoordLive.
From Coq Require Import Permutation.

Lemma round53_nonneg p e : 0 <= p -> 0 <= fst (round53 p e).
Proof.
  intros Hp. unfold round53. destruct (_ <=? 53); cbn [fst]; [exact Hp|].
  assert (0 <= Z.shiftr p (Z.log2 p + 1 - 53)) by (apply Z.shiftr_nonneg; exact Hp).
  destruct (_ || _); lia.
Qed.
Lemma trunc2_nonneg q e : 0 <= q -> 0 <= trunc2 q e.
Proof. intros H. unfold trunc2. destruct (0 <=? e); [now apply Z.shiftl_nonneg|now apply Z.shiftr_nonneg]. Qed.
Lemma div_round_nonneg t n : 0 <= div_round t n.
Proof.
  unfold div_round. destruct (_ || _) eqn:E; [lia|]. apply orb_false_iff in E. destruct E as [Ht Hn].
  apply Z.leb_gt in Ht. apply Z.leb_gt in Hn.
  match goal with |- context [round53 ?a ?b] => pose proof (round53_nonneg a b) as H; destruct (round53 a b) as [q e'] end.
  cbn [fst] in H. apply trunc2_nonneg. apply H.
  assert (0 <= Z.shiftl t 120 / n) by (apply Z.div_pos; [apply Z.shiftl_nonneg; lia|lia]).
  destruct (_ =? 0); lia.
Qed.

Definition spos (e : sstat) : Prop := 0 <= ss_series e /\ 0 <= ss_total e.
Definition mpos (m : amap sstat) : Prop := forall h e, afind h m = Some e -> spos e.
Definition tpos (tru : amap truth) : Prop := forall h, 0 <= tr_series (truth_of tru h) /\ 0 <= tr_total (truth_of tru h).
Definition wpos (w : world) : Prop := forall k, mpos (status_at w k).

Lemma scrape_status_pos e r stopped : spos e -> match r with ScrOk _ t => 0 <= t | ScrFail => True end -> spos (scrape_status e r stopped).
Proof.
  intros [H1 H2] Hr. destruct r as [sc t|]; unfold spos; cbn; [|auto]. split; [apply div_round_nonneg|exact Hr].
Qed.

Lemma do_scrape_pos sc h r stopped : mpos (sc_status sc) -> match r with ScrOk _ t => 0 <= t | ScrFail => True end ->
  mpos (sc_status (do_scrape sc h r stopped)).
Proof.
  intros Hm Hr. unfold do_scrape. destruct (afind h (sc_status sc)) as [st|] eqn:E; [|exact Hm]. cbn [sc_status].
  intros h' e Hf. destruct (N.eq_dec h h') as [<-|Hn].
  - rewrite afind_aset_eq in Hf. injection Hf as <-. apply scrape_status_pos; [now apply (Hm h)|exact Hr].
  - rewrite afind_aset_neq in Hf by exact Hn. now apply (Hm h').
Qed.

Lemma scrape_shard_pos tru n s : tpos tru -> mpos (sc_status (ws_sc s)) -> mpos (sc_status (ws_sc (scrape_shard tru n s))).
Proof.
  intros Ht Hm. unfold scrape_shard. cbn [ws_sc].
  apply (fold_left_inv_in _ (fun sc => mpos (sc_status sc))); [exact Hm|]. intros a kv _ Ha.
  apply (fold_left_inv_in _ (fun sc => mpos (sc_status sc))); [exact Ha|]. intros a' x _ Ha'.
  apply do_scrape_pos; [exact Ha'|]. destruct (tr_healthy _); [apply Ht|exact I].
Qed.

Lemma update_status_pos old req : NoDup (hashes req) -> mpos old ->
  (forall t, In t (all_targets req) -> 0 <= t_series t /\ 0 <= t_total t) -> mpos (update_status old req).
Proof.
  intros Hnd Hold Ht h e Hf. destruct (update_status_spec old req Hnd) as [Hk Hs].
  assert (Hin : In h (hashes req)) by (rewrite <- Hk; apply afind_some_keys; eauto).
  unfold hashes in Hin. apply in_map_iff in Hin. destruct Hin as [t [<- Hin]].
  rewrite (Hs t Hin) in Hf. injection Hf as <-. unfold entry_for, spos. cbn [ss_series ss_total].
  destruct (afind (t_hash t) old) as [e0|] eqn:E; [apply (Hold _ _ E)|cbn; now apply Ht].
Qed.

Lemma fresh_pos now : mpos (sc_status (ws_sc (fresh_shard now))).
Proof. intros h e H. discriminate. Qed.

(* ---- the shards after a fault-free cycle in the regime: the old ones (updated), then fresh ones; never fewer ---- *)
Lemma cycle_shards_regime o tru w f sch : regime o -> Z.of_nat (length (w_shards w)) <= max_shard o ->
  let out := cycle o (cycle_input tru w f) sch in
  exists m, w_shards (model_cycle o tru w f sch) =
            zip_posts tru 0 (w_shards w) (o_posts out) w f ++ repeat (fresh_shard (w_now w)) m.
Proof.
  intros R Hl. cbn zeta. destruct (regime_main o tru w f sch R) as (Hsk & Hdz & Hsc).
  set (out := cycle o (cycle_input tru w f) sch) in *.
  set (z := zip_posts tru 0 (w_shards w) (o_posts out) w f).
  assert (Hzl : length z = length (w_shards w)) by apply zip_length.
  unfold model_cycle, apply_cycle. fold out. cbn [w_shards]. fold z.
  destruct (o_scales out) as [|x r] eqn:E; [congruence|].
  assert (Hin : In (last (x :: r) 0) (o_scales out)) by (rewrite E; apply last_in; discriminate).
  apply (c07_no_shrink o _ sch _) in Hin; [| rewrite inputs_length; exact Hl | left; apply (rg_idle o R)].
  rewrite inputs_length in Hin. unfold rescale.
  destruct (Nat.leb_spec (Z.to_nat (last (x :: r) 0)) (length z)) as [Hle|Hgt].
  - exists 0%nat. cbn [repeat]. rewrite app_nil_r. apply firstn_all2. lia.
  - eexists. reflexivity.
Qed.

Lemma status_cycle_regime o tru w f sch : regime o -> Z.of_nat (length (w_shards w)) <= max_shard o ->
  forall k, status_at (model_cycle o tru w f sch) k =
    if Nat.ltb k (length (w_shards w))
    then sc_status (ws_sc (after_cycle_shard tru w f k (nth k (w_shards w) dws)
                             (nth k (o_posts (cycle o (cycle_input tru w f) sch)) None)))
    else [].
Proof.
  intros R Hl k. destruct (cycle_shards_regime o tru w f sch R Hl) as [m Hnew]. unfold status_at. rewrite Hnew.
  set (z := zip_posts _ _ _ _ _ _). assert (Hzl : length z = length (w_shards w)) by apply zip_length.
  destruct (Nat.ltb_spec k (length (w_shards w))) as [Hk|Hk].
  - rewrite app_nth1 by lia. unfold z. now rewrite nth_zip by exact Hk.
  - rewrite app_nth2 by lia.
    destruct (nth_in_or_default (k - length z) (repeat (fresh_shard (w_now w)) m) dws) as [Hin|Hd].
    + apply repeat_spec in Hin. now rewrite Hin.
    + now rewrite Hd.
Qed.

(* ---- what the coordinator is told by a non-negative world is non-negative ---- *)
Lemma input_pos tru w : tpos tru -> wpos w ->
  let i := cycle_input tru w no_faults in
  (forall k h c, afind h (reported i k) = Some c -> cpos c) /\ (forall h c, afind h (i_explore i) = Some c -> cpos c).
Proof.
  intros Ht Hp. cbn zeta. split.
  - intros k h c Hc. destruct (Nat.lt_ge_cases k (length (w_shards w))) as [Hk|Hk].
    + rewrite (reported_world_full tru w no_faults k Hk (insync_nofaults tru w k Hk)), afind_map_val in Hc.
      destruct (afind h (sc_status (ws_sc (nth k (w_shards w) dws)))) as [e|] eqn:Ee; [|discriminate].
      injection Hc as <-. apply (Hp k h e Ee).
    + unfold reported, shard_at in Hc. rewrite nth_overflow in Hc by (rewrite inputs_length; exact Hk). discriminate.
  - intros h c Hc. unfold cycle_input in Hc. cbn [i_explore] in Hc. unfold explore_of in Hc.
    apply afind_In in Hc. apply in_map_iff in Hc. destruct Hc as [x [Hx _]]. injection Hx as _ <-.
    destruct (tr_healthy (truth_of tru x)); unfold cpos; cbn; [apply Ht|lia].
Qed.

(* ---- a fault-free cycle in the regime keeps every size non-negative ---- *)
Theorem cycle_keeps_pos o tru w sch : regime o -> winv o w -> tpos tru -> wpos w -> wpos (model_cycle o tru w no_faults sch).
Proof.
  intros R [Hw Hs Hl] Ht Hp k. rewrite (status_cycle_regime o tru w no_faults sch R Hl).
  destruct (Nat.ltb_spec k (length (w_shards w))) as [Hk|Hk]; [|intros h e H; discriminate].
  set (i := cycle_input tru w no_faults). set (out := cycle o i sch).
  destruct (regime_main o tru w no_faults sch R) as (Hsk & Hdz & _).
  assert (Hlen : length (i_shards i) = length (w_shards w)) by apply inputs_length.
  assert (Hki : (k < length (i_shards i))%nat) by now rewrite Hlen.
  destruct (post_main o i sch k Hki Hsk Hdz) as [Hpost _]. fold out in Hpost.
  unfold after_cycle_shard. cbn [ws_sc no_faults f_unreachable f_post_lost hit existsb negb andb].
  destruct (nth k (o_posts out) None) as [body|] eqn:Eb; [|apply Hp].
  cbn [do_update fst sc_status].
  pose proof (nodup_reports_world tru w no_faults Hw) as Hnd.
  assert (Hu : body_unique body).
  { pose proof (model_posts_unique o i sch Hnd) as Hall. rewrite Forall_forall in Hall. apply (Hall (Some body)); [|reflexivity].
    fold out. rewrite <- Eb. apply nth_In. unfold out, cycle, cycle_sst. fold i.
    destruct (_ && negb (i_scale1_ok i)); cbn [fst o_posts]; [now rewrite map_length, map_length|].
    destruct (negb _ && (max_proc o =? 0)); cbn [fst o_posts]; [now rewrite map_length, map_length|].
    rewrite !map_length, combine_length, stages_len_p4. lia. }
  apply update_status_pos; [now apply request_unique | apply Hp |].
  intros t Hin. eapply Permutation_in in Hin; [|apply all_targets_request_of]. apply in_rev in Hin.
  apply in_map_iff in Hin. destruct Hin as [p [<- Hin]]. unfold mk_tgt. cbn [t_series t_total]. split.
  - (* the size in the update is the planned entry's *)
    clear Eb. symmetry in Hpost. unfold apply_shard in Hpost. destruct (negb (si_ok _)); [discriminate|].
    assert (Eb' : body = new_targets (i_active i) (nth_si (final_plan o i sch) k)).
    { destruct (need_update _ _); [|discriminate]. destruct (sh_post_ok _); cbn [fst] in Hpost; injection Hpost as Hpost; symmetry; exact Hpost. }
    subst body. unfold new_targets in Hin. apply in_flat_map in Hin. destruct Hin as [[h c] [Hin Hp']]. cbn [fst snd] in Hp'.
    destruct (afind h (i_active i)); [|destruct Hp']. destruct Hp' as [<-|[]]. cbn [pt_series].
    destruct (input_pos tru w Ht Hp) as [Hrep Hexp].
    assert (Hf : afind h (scr_of (nth_si (final_plan o i sch) k)) = Some c).
    { apply In_afind_nodup; [|exact Hin]. apply (stages_nodup o i (sst_of sch) Hnd). }
    unfold final_plan in Hf. rewrite (stages_p4_noidle o i _ (rg_idle o R)) in Hf.
    apply (p3_pos o i (sst_of sch) Hnd Hrep Hexp k h c (rg_noall o R) Hf).
  - destruct (tr_healthy _); [apply Ht|lia].
Qed.

Theorem scrape_keeps_pos tru w n : tpos tru -> wpos w -> wpos (lstep_det tru w (LScrapeAll n)).
Proof. intros Ht Hp k. rewrite status_scrape. apply scrape_shard_pos; [exact Ht|apply Hp]. Qed.

(* ================================================================== placed, or the replica grows *)
Definition probe (tru : amap truth) (h : N) : cstat :=
  {| c_state := Normal; c_health := Good; c_series := tr_series (truth_of tru h); c_total := tr_total (truth_of tru h); c_times := 0 |}.
(* a target the coordinator may place: its probe succeeds, it has samples, and it fits into an empty shard *)
Definition eligible (o : opts) (tru : amap truth) (h : N) : Prop :=
  tr_healthy (truth_of tru h) = true /\ is_too_big o (probe tru h) = false /\
  (0 < tr_series (truth_of tru h) \/ 0 < tr_total (truth_of tru h)).

Lemma afind_map_fun {V} (f : N -> V) h l : In h l -> afind h (map (fun x => (x, f x)) l) = Some (f h).
Proof.
  induction l as [|x r IH]; [intros []|]. intros Hin. cbn. destruct (N.eqb_spec h x) as [->|Hn]; [reflexivity|].
  apply IH. destruct Hin as [->|Hin]; [congruence|exact Hin].
Qed.

Theorem cycle_places_or_grows o tru w sch h :
  regime o -> 0 <= max_head o -> winv o w -> tpos tru -> wpos w ->
  In h (w_active w) -> eligible o tru h ->
  (forall k, afind h (status_at w k) = None) ->
  Z.of_nat (length (w_shards w)) < max_shard o ->
  held (model_cycle o tru w no_faults sch) h \/
  (length (w_shards w) + 1 <= length (w_shards (model_cycle o tru w no_faults sch)))%nat.
Proof.
  intros R Hmh [Hw Hs Hl] Ht Hp Hact (Hhealthy & Hfit & Hsize) Hnone Hroom.
  set (i := cycle_input tru w no_faults). set (out := cycle o i sch). set (S := run_stages o i (sst_of sch)).
  destruct (regime_main o tru w no_faults sch R) as (Hsk & Hdz & Hsc).
  assert (Hlen : length (i_shards i) = length (w_shards w)) by apply inputs_length.
  assert (Hkeys : akeys (i_active i) = w_active w).
  { unfold i, cycle_input, akeys. cbn [i_active]. rewrite map_map. cbn. apply map_id. }
  pose proof (nodup_reports_world tru w no_faults Hw) as Hnd.
  destruct (input_pos tru w Ht Hp) as [Hrep Hexp]. fold i in Hrep, Hexp.
  set (p0 := map (fun sh => fst (get_info sh)) (i_shards i)).
  (* nobody reports h *)
  assert (Hp0 : forall k, afind h (scr_of (nth_si p0 k)) = None).
  { intros k. destruct (Nat.lt_ge_cases k (length (i_shards i))) as [Hk|Hk].
    - unfold p0. rewrite nth_si_p0 by exact Hk. destruct (scr_of_info_reported i k) as [E|E]; rewrite E; [|reflexivity].
      rewrite Hlen in Hk. unfold i. rewrite (reported_world_full tru w no_faults k Hk (insync_nofaults tru w k Hk)), afind_map_val.
      specialize (Hnone k). unfold status_at in Hnone. now rewrite Hnone.
    - rewrite nth_si_out by (unfold p0; rewrite map_length; exact Hk). reflexivity. }
  assert (Hg : global_status (i_explore i) p0 h = probe tru h).
  { unfold global_status. destruct (first_known p0 h) as [c|] eqn:E.
    - destruct (first_known_entry p0 h c E) as [k [_ Hf]]. rewrite Hp0 in Hf. discriminate.
    - unfold i, cycle_input. cbn [i_explore]. unfold explore_of. rewrite (afind_map_fun _ h _ Hact). now rewrite Hhealthy. }
  assert (Hp2 : st_p2 S = recover (gc o (i_active i) p0)).
  { unfold S, run_stages. cbn [st_p2]. fold p0. now rewrite (alleviate_calm o _ _ (or_introl (rg_noall o R))). }
  assert (Hok3 : forall k', (k' < length (w_shards w))%nat -> si_ok (nth_si (st_p3 S) k') = true).
  { intros k' Hk'. unfold S. rewrite <- (stages_p4_noidle o i (sst_of sch) (rg_idle o R)). rewrite <- (le_ok _ _ (stages_le_14 o i (sst_of sch))).
    rewrite p1_ok by (now rewrite Hlen). now apply insync_nofaults. }
  assert (Hl3 : length (st_p3 S) = length (w_shards w)).
  { unfold S. rewrite <- (stages_p4_noidle o i (sst_of sch) (rg_idle o R)), stages_len_p4. exact Hlen. }
  destruct (place_or_grow o i (sst_of sch) h) as [Hev|Hgrow]; fold S.
  - apply (rg_proc o R).
  - exact Hmh.
  - apply (global_pos i Hrep Hexp).
  - now rewrite Hkeys.
  - rewrite Hp2. destruct (existsb _ _) eqn:E; [|reflexivity]. exfalso.
    apply existsb_exists in E. destruct E as [si [Hin Hm]].
    destruct (In_nth _ _ dflt Hin) as [k [Hk Hnth]]. rewrite <- nth_si_eq in Hnth. subst si.
    unfold amem in Hm. destruct (afind h (scr_of (nth_si (recover (gc o (i_active i) p0)) k))) as [c|] eqn:Ec; [|discriminate].
    destruct (recover_find _ k h c Ec) as (c0 & H0 & _).
    apply gc_only_removes in H0; [|apply nodup_p0; exact Hnd]. fold p0 in H0. rewrite Hp0 in H0. discriminate.
  - change (st_p0 S) with p0. now rewrite Hg.
  - change (st_p0 S) with p0. now rewrite Hg.
  - change (st_p0 S) with p0. rewrite Hg. exact Hsize.
  - apply Forall_forall. intros si Hin. destruct (In_nth _ _ dflt Hin) as [k [Hk Hnth]]. rewrite <- nth_si_eq in Hnth. subst si.
    apply Hok3. now rewrite <- Hl3.
  - now rewrite Hl3.
  - (* placed: the plan has it, so the sidecar holds it after the cycle *)
    left. unfold S, run_stages in Hev. cbn [st_ev_b] in Hev.
    apply assign_event_placed in Hev. destruct Hev as [j [Hj Hhas]].
    change (has (st_p3 S) j h) in Hhas. change (j < length (st_p3 S))%nat in Hj. rewrite Hl3 in Hj.
    unfold has in Hhas. destruct (afind h (scr_of (nth_si (st_p3 S) j))) as [c|] eqn:Ec; [|contradiction].
    assert (Hki : (j < length (i_shards i))%nat) by now rewrite Hlen.
    destruct (post_main o i sch j Hki Hsk Hdz) as [_ Hplan]. fold out in Hplan.
    destruct (proj2 (world_follows_plan o tru w sch j h (c_state c) Hw Hj Hsk Hdz)) as [e [He _]].
    { exists c. fold i out. rewrite Hplan. unfold final_plan. rewrite (stages_p4_noidle o i _ (rg_idle o R)).
      split; [exact Ec|]. split; [reflexivity|]. now apply active_world. }
    destruct (cycle_shards_regime o tru w no_faults sch R Hl) as [m Hnew].
    exists j. split.
    + rewrite Hnew, app_length, zip_length. lia.
    + unfold holds. change (In h (akeys (status_at (model_cycle o tru w no_faults sch) j))).
      rewrite (status_cycle_regime o tru w no_faults sch R Hl). destruct (Nat.ltb_spec j (length (w_shards w))) as [_|Hge]; [|lia].
      apply afind_some_keys. eauto.
  - (* not placed: the replica is asked to grow, and does *)
    right. fold S in Hgrow. rewrite Hl3 in Hgrow. unfold model_cycle, apply_cycle. cbn [w_shards].
    destruct (o_scales (cycle o (cycle_input tru w no_faults) sch)) as [|x r] eqn:E; [congruence|].
    rewrite rescale_length. rewrite <- E, (regime_last_scale o tru w no_faults sch R). fold i S. lia.
Qed.

(* ================================================================== iteration: calm rounds *)
Lemma round_pos o tru w sch : regime o -> winv o w -> tpos tru -> wpos w -> wpos (calm_round_with o tru w sch).
Proof. intros R Hi Ht Hp. unfold calm_round_with. apply scrape_keeps_pos; [exact Ht|]. now apply cycle_keeps_pos. Qed.

Lemma round_active o tru w sch : w_active (calm_round_with o tru w sch) = w_active w.
Proof. reflexivity. Qed.

Lemma round_len_cycle o tru w sch : regime o -> winv o w ->
  length (w_shards (calm_round_with o tru w sch)) = length (w_shards (model_cycle o tru w no_faults sch)).
Proof. intros R Hi. unfold calm_round_with. cbn [lstep_det w_shards]. now rewrite map_length. Qed.

Lemma round_len o tru w sch : regime o -> winv o w ->
  (length (w_shards w) <= length (w_shards (calm_round_with o tru w sch)))%nat.
Proof.
  intros R Hi. rewrite (round_len_cycle o tru w sch R Hi).
  destruct (cycle_shards_regime o tru w no_faults sch R (wi_len o w Hi)) as [m Hnew]. rewrite Hnew, app_length, zip_length. lia.
Qed.

Lemma round_held o tru w sch h : regime o -> winv o w -> In h (w_active w) ->
  held (model_cycle o tru w no_faults sch) h -> held (calm_round_with o tru w sch) h.
Proof.
  intros R Hi Hact Hh. unfold calm_round_with.
  assert (Hi1 : winv o (model_cycle o tru w no_faults sch)) by (apply winv_cycle; [apply (rg_mm o R)|exact Hi]).
  apply (held_det o); [now apply winv_det|]. now apply (held_det o).
Qed.

Lemma rounds_inv o tru : regime o -> tpos tru -> forall schs w, winv o w -> wpos w ->
  winv o (fold_left (calm_round_with o tru) schs w) /\ wpos (fold_left (calm_round_with o tru) schs w) /\
  w_active (fold_left (calm_round_with o tru) schs w) = w_active w /\
  (length (w_shards w) <= length (w_shards (fold_left (calm_round_with o tru) schs w)))%nat.
Proof.
  intros R Ht. induction schs as [|s r IH]; intros w Hi Hp; cbn [fold_left]; [auto|].
  destruct (IH (calm_round_with o tru w s) (round_winv o tru w s R Hi) (round_pos o tru w s R Hi Ht Hp)) as (A & B & C & D).
  split; [exact A|]. split; [exact B|]. split; [exact C|]. pose proof (round_len o tru w s R Hi). lia.
Qed.

Lemma rounds_held o tru h : regime o -> forall schs w, winv o w -> In h (w_active w) -> held w h ->
  held (fold_left (calm_round_with o tru) schs w) h.
Proof.
  intros R. induction schs as [|s r IH]; intros w Hi Hact Hh; cbn [fold_left]; [exact Hh|].
  apply IH; [now apply round_winv | exact Hact |].
  apply round_held; auto. apply cycle_no_gap; [apply (wi_wf o w Hi) | apply (wi_len o w Hi) | exact Hact | exact Hh].
Qed.

Definition heldb (w : world) (h : N) : bool := existsb (fun s => amem h (sc_status (ws_sc s))) (w_shards w).
Lemma heldb_held w h : heldb w h = true -> held w h.
Proof.
  intros H. apply existsb_exists in H. destruct H as [s [Hin Hm]]. destruct (In_nth _ _ dws Hin) as [k [Hk Hnth]].
  exists k. split; [exact Hk|]. rewrite Hnth. unfold holds. now apply amem_keys.
Qed.
Lemma not_heldb w h : heldb w h = false -> forall k, afind h (status_at w k) = None.
Proof.
  intros H k. unfold status_at. destruct (nth_in_or_default k (w_shards w) dws) as [Hin|Hd]; [|now rewrite Hd].
  destruct (afind h (sc_status (ws_sc (nth k (w_shards w) dws)))) as [e|] eqn:E; [|reflexivity]. exfalso.
  assert (Ht : heldb w h = true); [|congruence]. apply existsb_exists. exists (nth k (w_shards w) dws). split; [exact Hin|].
  unfold amem. now rewrite E.
Qed.

(* every eligible discovered target is on a shard after at most (max-shard - current shards) + 1 calm rounds, unless the
   replica has reached max-shard — from any well-formed world, under every schedule in every cycle *)
Theorem placed_or_at_cap o tru h : regime o -> 0 <= max_head o -> tpos tru -> eligible o tru h ->
  forall schs w, winv o w -> wpos w -> In h (w_active w) ->
  (Z.to_nat (max_shard o - Z.of_nat (length (w_shards w))) < length schs)%nat ->
  let w' := fold_left (calm_round_with o tru) schs w in
  held w' h \/ Z.of_nat (length (w_shards w')) = max_shard o.
Proof.
  intros R Hmh Ht He. induction schs as [|s r IH]; intros w Hi Hp Hact Hlen; cbn zeta; [cbn in Hlen; lia|].
  cbn [fold_left]. cbn [length] in Hlen.
  pose proof (round_winv o tru w s R Hi) as Hi1. pose proof (round_pos o tru w s R Hi Ht Hp) as Hp1.
  destruct (rounds_inv o tru R Ht r _ Hi1 Hp1) as (Hir & _ & _ & Hlr).
  pose proof (round_len o tru w s R Hi) as Hl1.
  destruct (heldb w h) eqn:Eh.
  - left. apply (rounds_held o tru h R (s :: r) w Hi Hact). now apply heldb_held.
  - destruct (Z.eq_dec (Z.of_nat (length (w_shards w))) (max_shard o)) as [Hcap|Hnc].
    + right. pose proof (wi_len o _ Hir). lia.
    + pose proof (wi_len o w Hi) as Hle.
      destruct (cycle_places_or_grows o tru w s h R Hmh Hi Ht Hp Hact He (not_heldb w h Eh)) as [Hheld|Hgrow]; [lia| |].
      * left. apply (rounds_held o tru h R r _ Hi1 Hact). now apply round_held.
      * rewrite <- (round_len_cycle o tru w s R Hi) in Hgrow.
        apply (IH _ Hi1 Hp1 Hact). lia.
Qed.

(* both halves together: after enough calm rounds the world is clean and every eligible target is held (so: by exactly one
   shard, in normal state) unless max-shard is reached *)
Theorem converges_in_regime o tru schs w : regime o -> 0 <= max_head o -> tpos tru ->
  winv o w -> wpos w -> NoDup (w_active w) ->
  (2 <= length schs)%nat -> (Z.to_nat (max_shard o - Z.of_nat (length (w_shards w))) < length schs)%nat ->
  let w' := fold_left (calm_round_with o tru) schs w in
  wclean w' /\
  forall h, In h (w_active w) -> eligible o tru h ->
    Z.of_nat (length (w_shards w')) = max_shard o \/
    exists k, (k < length (w_shards w'))%nat /\
      (exists e, afind h (status_at w' k) = Some e /\ ss_state e = Normal) /\
      forall j, j <> k -> (j < length (w_shards w'))%nat -> afind h (status_at w' j) = None.
Proof.
  intros R Hmh Ht Hi Hp Hnd H2 Hlen. cbn zeta.
  pose proof (clean_from_the_second_round o tru w schs R Hi Hnd H2) as Hc. split; [exact Hc|].
  intros h Hact He. destruct (placed_or_at_cap o tru h R Hmh Ht He schs w Hi Hp Hact Hlen) as [[k [Hk Hh]]|Hcap]; [|now left].
  right. exists k. split; [exact Hk|]. unfold holds in Hh. apply afind_some_keys in Hh. destruct Hh as [e Hf].
  change (afind h (status_at (fold_left (calm_round_with o tru) schs w) k) = Some e) in Hf.
  destruct (Hc k h e Hk Hf) as (Hn & _ & Hoth). split; [eauto|exact Hoth].
Qed.

(* ================================================================== the limit is a fixpoint *)
(* a clean world in which every discovered target is held, or cannot be placed at all (its probe fails, or it is larger than
   a shard), is settled: the next cycle changes nothing (settled_world_unchanged) *)
Definition all_held_or_unplaceable (o : opts) (tru : amap truth) (w : world) : Prop :=
  forall h, In h (w_active w) -> held w h \/ tr_healthy (truth_of tru h) = false \/ is_too_big o (probe tru h) = true.

Theorem wclean_settled o tru w : regime o -> winv o w -> min_shard o <= Z.of_nat (length (w_shards w)) ->
  wclean w -> all_held_or_unplaceable o tru w -> settled o (cycle_input tru w no_faults).
Proof.
  intros R [Hw Hs Hl] Hmin Hc Hall. set (i := cycle_input tru w no_faults).
  assert (Hlen : length (i_shards i) = length (w_shards w)) by apply inputs_length.
  set (p0 := map (fun sh => fst (get_info sh)) (i_shards i)).
  assert (Hl0 : length p0 = length (w_shards w)) by (unfold p0; now rewrite map_length).
  assert (Hscr : forall k, (k < length (w_shards w))%nat ->
            scr_of (nth_si p0 k) = map (fun kv => (fst kv, cstat_of (snd kv))) (status_at w k) /\
            si_ok (nth_si p0 k) = true /\ si_scr (nth_si p0 k) = Some (scr_of (nth_si p0 k))).
  { intros k Hk. assert (Hki : (k < length (i_shards i))%nat) by now rewrite Hlen.
    pose proof (insync_nofaults tru w k Hk) as Hsy. fold i in Hsy.
    unfold p0. rewrite nth_si_p0 by exact Hki. rewrite (insync_scr_of i k Hsy).
    split; [apply (reported_world_full tru w no_faults k Hk Hsy)|]. split; [exact Hsy|now apply insync_scr]. }
  assert (Hfind : forall k h, afind h (scr_of (nth_si p0 k)) = match afind h (status_at w k) with Some e => Some (cstat_of e) | None => None end).
  { intros k h. destruct (Nat.lt_ge_cases k (length (w_shards w))) as [Hk|Hk].
    - destruct (Hscr k Hk) as [-> _]. apply afind_map_val.
    - rewrite nth_si_out by (now rewrite Hl0). unfold status_at. rewrite nth_overflow by exact Hk. reflexivity. }
  assert (Hkeys : akeys (i_active i) = w_active w).
  { unfold i, cycle_input, akeys. cbn [i_active]. rewrite map_map. cbn. apply map_id. }
  constructor; fold p0.
  - constructor.
    + intros k Hk. rewrite Hl0 in Hk. destruct (Hscr k Hk) as (_ & A & B). now split.
    + intros k [h c] Hin. cbn [fst snd].
      assert (Hk : (k < length (w_shards w))%nat).
      { destruct (Nat.lt_ge_cases k (length (w_shards w))) as [H|H]; [exact H|]. rewrite nth_si_out in Hin by (now rewrite Hl0). destruct Hin. }
      destruct (Hscr k Hk) as (E & _). rewrite E in Hin. apply in_map_iff in Hin. destruct Hin as [[h' e] [Hx Hin]].
      cbn [fst snd] in Hx. injection Hx as -> <-.
      assert (Hf : afind h (status_at w k) = Some e).
      { apply In_afind_nodup; [|exact Hin]. pose proof (wf_at w k Hw) as Hwf. unfold status_at. rewrite (wf_keys _ Hwf). apply (wf_nodup _ Hwf). }
      destruct (Hc k h e Hk Hf) as (Hn & Hact & _). split; [|exact Hn]. now apply active_world.
    + intros k j h Hne Hin. apply afind_some_keys in Hin. destruct Hin as [c Hf]. rewrite Hfind in Hf. rewrite Hfind.
      destruct (afind h (status_at w k)) as [e|] eqn:Ee; [|discriminate].
      assert (Hk : (k < length (w_shards w))%nat).
      { destruct (Nat.lt_ge_cases k (length (w_shards w))) as [H|H]; [exact H|]. unfold status_at in Ee. rewrite nth_overflow in Ee by exact H. discriminate. }
      destruct (Nat.lt_ge_cases j (length (w_shards w))) as [Hj|Hj].
      * destruct (Hc k h e Hk Ee) as (_ & _ & Hoth). now rewrite (Hoth j (not_eq_sym Hne) Hj).
      * unfold status_at. rewrite nth_overflow by exact Hj. reflexivity.
  - left. apply (rg_noall o R).
  - intros h Hin. rewrite Hkeys in Hin. destruct (Hall h Hin) as [[k [Hk Hh]]|Hun].
    + left. apply existsb_exists. exists (nth_si p0 k). split; [rewrite nth_si_eq; apply nth_In; now rewrite Hl0|].
      unfold amem. rewrite Hfind. unfold holds in Hh. apply afind_some_keys in Hh. destruct Hh as [e He].
      change (afind h (status_at w k) = Some e) in He. now rewrite He.
    + (* not held anywhere (else the first case applies): its status is the probe's *)
      destruct (heldb w h) eqn:Eh.
      * left. apply heldb_held in Eh. destruct Eh as [k [Hk Hh]].
        apply existsb_exists. exists (nth_si p0 k). split; [rewrite nth_si_eq; apply nth_In; now rewrite Hl0|].
        unfold amem. rewrite Hfind. unfold holds in Hh. apply afind_some_keys in Hh. destruct Hh as [e He].
        change (afind h (status_at w k) = Some e) in He. now rewrite He.
      * right. pose proof (not_heldb w h Eh) as Hnone.
        assert (Hg : global_status (i_explore i) p0 h =
                     if tr_healthy (truth_of tru h) then probe tru h
                     else {| c_state := Normal; c_health := Bad; c_series := 0; c_total := 0; c_times := 0 |}).
        { unfold global_status. destruct (first_known p0 h) as [c|] eqn:E.
          - destruct (first_known_entry p0 h c E) as [k [_ Hf]]. rewrite Hfind, Hnone in Hf. discriminate.
          - unfold i, cycle_input. cbn [i_explore]. unfold explore_of. now rewrite (afind_map_fun _ h _ Hin). }
        rewrite Hg. destruct Hun as [Hun|Hun]; rewrite ?Hun; [now left|].
        destruct (tr_healthy (truth_of tru h)); [now right|now left].
  - apply (rg_idle o R).
  - rewrite Hlen. split; [exact Hmin|exact Hl].
Qed.

(* the placement: which shard holds which target in which state *)
Definition state_at (w : world) (k : nat) (h : N) : option tstate :=
  match afind h (status_at w k) with Some e => Some (ss_state e) | None => None end.
Definition same_placement (w w' : world) : Prop :=
  length (w_shards w') = length (w_shards w) /\ w_active w' = w_active w /\ forall k h, state_at w' k h = state_at w k h.

Lemma wclean_placement w w' : same_placement w w' -> wclean w -> wclean w'.
Proof.
  intros (Hl & Ha & Hs) Hc k h e Hk Hf. rewrite Hl in Hk.
  pose proof (Hs k h) as E. unfold state_at in E. rewrite Hf in E.
  destruct (afind h (status_at w k)) as [e0|] eqn:E0; [|discriminate]. injection E as E.
  destruct (Hc k h e0 Hk E0) as (Hn & Hact & Hoth). split; [congruence|]. split; [now rewrite Ha|].
  intros j Hj Hjl. rewrite Hl in Hjl. pose proof (Hs j h) as Ej. unfold state_at in Ej. rewrite (Hoth j Hj Hjl) in Ej.
  destruct (afind h (status_at w' j)); [discriminate|reflexivity].
Qed.

Lemma held_placement w w' h : same_placement w w' -> held w h -> held w' h.
Proof.
  intros (Hl & _ & Hs) [k [Hk Hh]]. exists k. split; [now rewrite Hl|].
  unfold holds in *. apply afind_some_keys in Hh. destruct Hh as [e He].
  pose proof (Hs k h) as E. unfold state_at, status_at in E. rewrite He in E.
  apply afind_some_keys. destruct (afind h (sc_status (ws_sc (nth k (w_shards w') dws)))) as [e'|]; [eauto|discriminate].
Qed.

Theorem settled_round_same_placement o tru w sch : regime o -> winv o w -> min_shard o <= Z.of_nat (length (w_shards w)) ->
  wclean w -> all_held_or_unplaceable o tru w -> same_placement w (calm_round_with o tru w sch).
Proof.
  intros R Hi Hmin Hc Hall. pose proof (wclean_settled o tru w R Hi Hmin Hc Hall) as Hset.
  destruct (settled_world_unchanged o tru w sch (wi_wf o w Hi) Hset) as [Hl Hsame]. cbn zeta in Hl, Hsame.
  set (w1 := model_cycle o tru w no_faults sch) in *.
  assert (Hi1 : winv o w1) by (apply winv_cycle; [apply (rg_mm o R)|exact Hi]).
  split; [|split; [reflexivity|]].
  - unfold calm_round_with. cbn [lstep_det w_shards]. now rewrite map_length.
  - intros k h. unfold calm_round_with, state_at. fold w1.
    change (status_at (lstep_det tru (lstep_det tru w1 (LScrapeAll 3)) (LTick 400)) k) with (status_at (lstep_det tru w1 (LScrapeAll 3)) k).
    rewrite status_scrape.
    pose proof (scrape_shard_entry tru 3 (nth k (w_shards w1) dws) h (wf_at w1 k (wi_wf o w1 Hi1))) as H.
    assert (E1 : afind h (sc_status (ws_sc (nth k (w_shards w1) dws))) = afind h (status_at w k)).
    { destruct (Nat.lt_ge_cases k (length (w_shards w))) as [Hk|Hk]; [now apply Hsame|].
      unfold status_at. rewrite !nth_overflow by (rewrite ?Hl; exact Hk). reflexivity. }
    rewrite E1 in H. destruct (afind h (sc_status (ws_sc (scrape_shard tru 3 (nth k (w_shards w1) dws))))) as [e'|].
    + destruct H as (e & -> & _ & Hs). now rewrite Hs.
    + now rewrite H.
Qed.

(* ... and so does every later round: the converged placement never changes again *)
Theorem converged_stays o tru : regime o -> forall schs w, winv o w -> min_shard o <= Z.of_nat (length (w_shards w)) ->
  wclean w -> all_held_or_unplaceable o tru w -> same_placement w (fold_left (calm_round_with o tru) schs w).
Proof.
  intros R. induction schs as [|s r IH]; intros w Hi Hmin Hc Hall; cbn [fold_left].
  - split; [reflexivity|]. split; reflexivity.
  - pose proof (settled_round_same_placement o tru w s R Hi Hmin Hc Hall) as H1.
    destruct H1 as (L1 & A1 & S1).
    assert (H1 : same_placement w (calm_round_with o tru w s)) by (split; [exact L1|split; [exact A1|exact S1]]).
    destruct (IH (calm_round_with o tru w s)) as (L2 & A2 & S2).
    + now apply round_winv.
    + rewrite L1. exact Hmin.
    + now apply (wclean_placement w).
    + intros h Hin. rewrite A1 in Hin. destruct (Hall h Hin) as [Hh|Hun]; [left; now apply (held_placement w)|now right].
    + split; [congruence|]. split; [congruence|]. intros k h. now rewrite S2, S1.
Qed.
