(* Proofs/CoordNoDup.v — no stage of the cycle ever lists a target twice on one shard (aset replaces): used for the
   uniqueness of POST bodies in the closed loop. Same walk through the stages as the le_plan lemmas of CoordBasics. *)
From KV Require Import Base.Util Base.AMap Base.Sched Model.Coordinator Proofs.CoordBasics.
Local Open Scope list_scope.
Local Open Scope Z_scope.

Definition nd_pres (p p' : plan) : Prop := nodup_plan p -> nodup_plan p'.
Lemma nd_pres_refl p : nd_pres p p.
Proof. intros H. exact H. Qed.
Lemma nd_pres_trans p q r : nd_pres p q -> nd_pres q r -> nd_pres p r.
Proof. unfold nd_pres. auto. Qed.

Lemma NoDup_akeys_aset {V} k (v : V) m : NoDup (akeys m) -> NoDup (akeys (aset k v m)).
Proof.
  intros H. destruct (in_dec N.eq_dec k (akeys m)) as [Hin|Hout].
  - now rewrite akeys_aset_in.
  - rewrite akeys_aset_notin by exact Hout. apply NoDup_rev in H. rewrite <- (rev_involutive (akeys m ++ [k])).
    apply NoDup_rev. rewrite rev_app_distr. cbn. constructor; [now rewrite <- in_rev|exact H].
Qed.

Lemma nd_pres_upd p k f :
  (forall s, NoDup (akeys (scr_of s)) -> NoDup (akeys (scr_of (f s)))) -> nd_pres p (upd k f p).
Proof.
  intros Hf Hnd j. destruct (Nat.eq_dec k j) as [->|Hne]; [|rewrite nth_si_upd_neq by exact Hne; apply Hnd].
  destruct (Nat.lt_ge_cases j (length p)); [|rewrite nth_upd_ge by assumption; apply Hnd].
  rewrite nth_si_upd_eq by assumption. apply Hf, Hnd.
Qed.

Lemma nd_pres_transfer p from to h : nd_pres p (transfer p from to h).
Proof.
  unfold transfer. destruct (afind h (scr_of (nth_si p from))) as [tar|]; [|apply nd_pres_refl].
  eapply nd_pres_trans; apply nd_pres_upd; intros s Hs; cbn; now apply NoDup_akeys_aset.
Qed.

(* ---- relief ---- *)
Lemma relief_head_step_nd o k exp st h : nd_pres (rs_plan st) (rs_plan (relief_head_step o k exp st h)).
Proof.
  unfold relief_head_step.
  destruct (rs_abort st || (rs_total st <=? exp)); [apply nd_pres_refl|].
  destruct (afind h (scr_of (nth_si (rs_plan st) k))) as [tar|]; [|apply nd_pres_refl].
  destruct (negb (counted tar)); [apply nd_pres_refl|].
  destruct (max_head o <? c_series tar); [apply nd_pres_refl|].
  destruct (first_dest _ _ _); [|apply nd_pres_refl].
  simpl. apply nd_pres_transfer.
Qed.

Lemma relief_proc_step_nd o k exp st h : nd_pres (rs_plan st) (rs_plan (relief_proc_step o k exp st h)).
Proof.
  unfold relief_proc_step.
  destruct (rs_abort st || (rs_total st <=? exp)); [apply nd_pres_refl|].
  destruct (afind h (scr_of (nth_si (rs_plan st) k))) as [tar|]; [|apply nd_pres_refl].
  destruct ((c_total tar =? 0) || negb (counted tar)); [apply nd_pres_refl|].
  destruct (max_proc o <? c_total tar); [apply nd_pres_refl|].
  destruct (first_dest _ _ _); [|apply nd_pres_refl].
  simpl. apply nd_pres_transfer.
Qed.

Lemma relief_shard_nd step total0 exp p k s :
  (forall st h, nd_pres (rs_plan st) (rs_plan (step st h))) ->
  nd_pres p (fst (fst (fst (relief_shard step total0 exp p k s)))).
Proof.
  intros Hs. unfold relief_shard.
  destruct (total0 <=? exp); [apply nd_pres_refl|].
  destruct (order _ s) as [keys s1]. simpl.
  set (st0 := {| rs_plan := p; rs_total := total0; rs_events := []; rs_abort := false |}).
  change p with (rs_plan st0) at 1.
  apply (fold_left_rel step (fun a b => nd_pres (rs_plan a) (rs_plan b))); auto using nd_pres_refl.
  intros a b c. apply nd_pres_trans.
Qed.

Lemma proc_pass_step_nd o st k : nd_pres (ps_plan st) (ps_plan (proc_pass_step o st k)).
Proof.
  unfold proc_pass_step.
  destruct (si_ok _ && _); [|apply nd_pres_refl].
  match goal with |- context [relief_shard ?a ?b ?c ?d ?e ?f] =>
    pose proof (relief_shard_nd a b c d e f (relief_proc_step_nd o k _)) as H;
    destruct (relief_shard a b c d e f) as [[[p' need] evs] s'] end.
  exact H.
Qed.

Lemma head_pass_step_nd o st k : nd_pres (ps_plan st) (ps_plan (head_pass_step o st k)).
Proof.
  unfold head_pass_step.
  destruct (si_ok _); [|apply nd_pres_refl].
  destruct (head_threshold _ _) as [exp|]; [|apply nd_pres_refl].
  match goal with |- context [relief_shard ?a ?b ?c ?d ?e ?f] =>
    pose proof (relief_shard_nd a b c d e f (relief_head_step_nd o k _)) as H;
    destruct (relief_shard a b c d e f) as [[[p' need] evs] s'] end.
  exact H.
Qed.

Lemma alleviate_nd o p s : nd_pres p (fst (fst (fst (alleviate o p s)))).
Proof.
  unfold alleviate. destruct (disable_alleviate o); [apply nd_pres_refl|].
  set (st0 := {| ps_plan := p; ps_need := 0; ps_events := []; ps_sst := s |}).
  assert (H1 : nd_pres p (ps_plan (fold_left (proc_pass_step o) (indices p) st0))).
  { change p with (ps_plan st0) at 1.
    apply (fold_left_rel (proc_pass_step o) (fun a b => nd_pres (ps_plan a) (ps_plan b)));
      auto using nd_pres_refl, proc_pass_step_nd. intros a b c. apply nd_pres_trans. }
  destruct (max_head o =? 0); [exact H1|]. simpl.
  eapply nd_pres_trans; [exact H1|].
  match goal with |- nd_pres ?q (ps_plan (fold_left _ _ ?st1)) => change q with (ps_plan st1) at 1 end.
  apply (fold_left_rel (head_pass_step o) (fun a b => nd_pres (ps_plan a) (ps_plan b)));
    auto using nd_pres_refl, head_pass_step_nd. intros a b c. apply nd_pres_trans.
Qed.

(* ---- assign ---- *)
Lemma assign_step_nd o scraped g st h : nd_pres (as_plan st) (as_plan (assign_step o scraped g st h)).
Proof.
  unfold assign_step.
  destruct (scraped h); [apply nd_pres_refl|].
  destruct (negb _); [apply nd_pres_refl|].
  destruct (is_too_big _ _); [apply nd_pres_refl|].
  destruct (get_free_shard _ _ _ _ _ _) as [[j|] s']; [|apply nd_pres_refl].
  simpl. apply nd_pres_upd. intros s0 Hs0. cbn. now apply NoDup_akeys_aset.
Qed.

Lemma assign_nd o active g p s : nd_pres p (fst (fst (fst (assign o active g p s)))).
Proof.
  unfold assign. destruct (order (akeys active) s) as [keys s1]. simpl.
  match goal with |- nd_pres ?q (as_plan (fold_left _ _ ?st0)) => change q with (as_plan st0) at 1 end.
  apply (fold_left_rel _ (fun a b => nd_pres (as_plan a) (as_plan b)));
    auto using nd_pres_refl, assign_step_nd. intros a b c. apply nd_pres_trans.
Qed.

(* ---- scale down ---- *)
Lemma become_idle_step_nd o k st h : nd_pres (is_plan st) (is_plan (become_idle_step o k st h)).
Proof.
  unfold become_idle_step.
  destruct (is_failed st); [apply nd_pres_refl|].
  destruct (afind h _) as [tar|]; [|apply nd_pres_refl].
  destruct (negb _ || _); [apply nd_pres_refl|].
  destruct (get_free_shard _ _ _ _ _ _) as [[j|] s']; simpl; [apply nd_pres_transfer | apply nd_pres_refl].
Qed.

Lemma become_idle_nd o p k s : nd_pres p (fst (fst (fst (become_idle o p k s)))).
Proof.
  unfold become_idle. destruct (order _ s) as [keys s1]. simpl.
  match goal with |- nd_pres ?q (is_plan (fold_left _ _ ?st0)) => change q with (is_plan st0) at 1 end.
  apply (fold_left_rel _ (fun a b => nd_pres (is_plan a) (is_plan b)));
    auto using nd_pres_refl, become_idle_step_nd. intros a b c. apply nd_pres_trans.
Qed.

Lemma scale_down_moves_nd o i p evs s : nd_pres p (fst (fst (scale_down_moves o i p evs s))).
Proof.
  revert p evs s. induction i as [|i IH]; intros p evs s; simpl; [apply nd_pres_refl|].
  destruct (si_idle (nth_si p (S i))); [apply IH|].
  destruct (can_be_idle o p (S i) s) as [can s1].
  destruct (negb can); [apply nd_pres_refl|].
  pose proof (become_idle_nd o p (S i) s1) as H.
  destruct (become_idle o p (S i) s1) as [[[p' evs'] ok] s2]. simpl in H.
  destruct ok; [|exact H]. eapply nd_pres_trans; [exact H | apply IH].
Qed.

Lemma try_scale_down_nd o p s : nd_pres p (snd (fst (fst (try_scale_down o p s)))).
Proof.
  unfold try_scale_down.
  pose proof (scale_down_moves_nd o (pred (tail_removable o (rev p))) p [] s) as H.
  destruct (scale_down_moves _ _ _ _ _) as [[p' evs] s']. exact H.
Qed.
