(* Proofs/SidecarProofs.v — lemmas about Model/Sidecar.v (C10, C14, counter/health part of C13). *)
From KV Require Import Base.Util Base.AMap Base.Float64 Model.Coordinator Model.Sidecar Model.SidecarCheck.
Local Open Scope list_scope.
Local Open Scope Z_scope.

Definition hashes (a : assignment) : list N := map t_hash (all_targets a).

(* the entry a target gets in an update, as a function of the previous status map *)
Definition entry_for (old : amap sstat) (t : tgt) : sstat :=
  let base := match afind (t_hash t) old with None => new_sstat (t_series t) (t_total t) | Some s => s end in
  {| ss_state := t_state t; ss_health := ss_health base; ss_series := ss_series base; ss_total := ss_total base;
     ss_times := if tstate_eqb (ss_state base) Normal && tstate_eqb (t_state t) InTransfer then 0%N else ss_times base;
     ss_window := ss_window base; ss_err := ss_err base; ss_last := ss_last base |}.

Lemma visit_fresh old new t : ~ In (t_hash t) (akeys new) -> visit old new t = aset (t_hash t) (entry_for old t) new.
Proof.
  intros Hn. unfold visit, entry_for. apply afind_none_keys in Hn.
  destruct (afind (t_hash t) old); [rewrite Hn|]; reflexivity.
Qed.

Lemma fold_visit old l acc :
  NoDup (map t_hash l) -> (forall t, In t l -> ~ In (t_hash t) (akeys acc)) ->
  let r := fold_left (visit old) l acc in
  akeys r = akeys acc ++ map t_hash l /\
  (forall t, In t l -> afind (t_hash t) r = Some (entry_for old t)) /\
  (forall h, In h (akeys acc) -> afind h r = afind h acc).
Proof.
  revert acc. induction l as [|t l IH]; intros acc Hnd Hdis; cbn zeta; simpl.
  - rewrite app_nil_r. repeat split; auto. intros t [].
  - inversion Hnd as [|? ? Ht Hl]; subst.
    assert (Hfresh : ~ In (t_hash t) (akeys acc)) by (apply Hdis; now left).
    rewrite visit_fresh by assumption.
    destruct (IH (aset (t_hash t) (entry_for old t) acc) Hl) as [Hk [Hf Hacc]].
    { intros t' Hin Hc. apply In_akeys_aset in Hc. destruct Hc as [Hc|Hc].
      - apply Ht. rewrite <- Hc. now apply in_map.
      - apply (Hdis t'); [now right | assumption]. }
    cbn zeta in *. split; [|split].
    + rewrite Hk, akeys_aset_notin by assumption. now rewrite <- app_assoc.
    + intros t' [<-|Hin]; [|now apply Hf].
      rewrite Hacc; [apply afind_aset_eq | apply In_akeys_aset; now left].
    + intros h Hin. rewrite Hacc; [|apply In_akeys_aset; now right].
      apply afind_aset_neq. intros <-. contradiction.
Qed.

(* C10: after an update, exactly one entry per assigned hash, in request order, each in the requested state and
   with the retained / initial statistics *)
Theorem update_status_spec old req :
  NoDup (hashes req) ->
  akeys (update_status old req) = hashes req /\
  forall t, In t (all_targets req) -> afind (t_hash t) (update_status old req) = Some (entry_for old t).
Proof.
  intros Hnd. unfold update_status.
  destruct (fold_visit old (all_targets req) [] Hnd) as [Hk [Hf _]]; [intros t _ []|].
  cbn zeta in *. split; [exact Hk | exact Hf].
Qed.

Lemma entry_for_new old t : afind (t_hash t) old = None ->
  entry_for old t = {| ss_state := t_state t; ss_health := Unknown; ss_series := t_series t; ss_total := t_total t;
                       ss_times := 0; ss_window := []; ss_err := false; ss_last := None |}.
Proof. intros H. unfold entry_for. rewrite H. simpl. now destruct (t_state t). Qed.

Lemma entry_for_kept old t s : afind (t_hash t) old = Some s ->
  let e := entry_for old t in
  ss_state e = t_state t /\ ss_health e = ss_health s /\ ss_series e = ss_series s /\ ss_total e = ss_total s /\
  ss_window e = ss_window s /\ ss_err e = ss_err s /\
  (ss_times e = 0%N /\ ss_state s = Normal /\ t_state t = InTransfer \/
   ss_times e = ss_times s /\ ~ (ss_state s = Normal /\ t_state t = InTransfer)).
Proof.
  intros H. unfold entry_for. rewrite H. cbn. repeat split.
  destruct (ss_state s), (t_state t); cbn; auto; right; split; auto; intros [? ?]; discriminate.
Qed.

(* ---- idle ---- *)
Lemma update_idle_spec status idle now :
  (status = [] -> update_idle status idle now = match idle with Some t => Some t | None => Some now end) /\
  (status <> [] -> update_idle status idle now = None).
Proof. unfold update_idle. destruct status; split; intros H; congruence. Qed.

(* ---- invariants over every reachable state ---- *)
Record wf (s : sidecar) : Prop := {
  wf_nodup : NoDup (hashes (sc_targets s));
  wf_keys : akeys (sc_status s) = hashes (sc_targets s);
  wf_state : forall t, In t (all_targets (sc_targets s)) ->
             exists st, afind (t_hash t) (sc_status s) = Some st /\ ss_state st = t_state t;
  wf_idle : sc_status s = [] <-> sc_idle s <> None;
  wf_store : match sc_store s with Some (a, _) => NoDup (hashes a) | None => True end;
}.

Definition op_unique (op : sc_op) : Prop :=
  match op with OpUpdate req _ _ => NoDup (hashes req) | _ => True end.

Lemma wf_do_update s req now ok :
  NoDup (hashes req) -> match sc_store s with Some (a, _) => NoDup (hashes a) | None => True end ->
  wf (fst (do_update s req now ok)).
Proof.
  intros Hnd Hst. destruct (update_status_spec (sc_status s) req Hnd) as [Hk Hf].
  unfold do_update. destruct ok; cbn [fst]; constructor; cbn [sc_targets sc_status sc_idle sc_store]; auto.
  - intros t Hin. exists (entry_for (sc_status s) t). split; [now apply Hf|]. reflexivity.
  - unfold update_idle. destruct (update_status (sc_status s) req); [destruct (sc_idle s)|]; split; congruence.
  - intros t Hin. exists (entry_for (sc_status s) t). split; [now apply Hf|]. reflexivity.
  - unfold update_idle. destruct (update_status (sc_status s) req); [destruct (sc_idle s)|]; split; congruence.
Qed.

Lemma akeys_aset_same {V} h (v : V) m : In h (akeys m) -> akeys (aset h v m) = akeys m.
Proof. apply akeys_aset_in. Qed.

Lemma wf_do_scrape s h r stopped : wf s -> wf (do_scrape s h r stopped).
Proof.
  intros W. unfold do_scrape. destruct (afind h (sc_status s)) as [st|] eqn:E; [|assumption].
  assert (Hin : In h (akeys (sc_status s))) by (apply afind_some_keys; eauto).
  constructor; cbn [sc_targets sc_status sc_idle sc_store].
  - apply W.
  - rewrite akeys_aset_in by assumption. apply W.
  - intros t Ht. destruct (wf_state s W t Ht) as [st' [Hf Hs]].
    destruct (N.eq_dec h (t_hash t)) as [->|Hne].
    + rewrite afind_aset_eq. eexists; split; [reflexivity|].
      rewrite E in Hf. injection Hf as <-. destruct r; exact Hs.
    + rewrite afind_aset_neq by assumption. eauto.
  - destruct (wf_idle s W) as [H1 H2]. split.
    + intros Hempty. exfalso. destruct (sc_status s); [discriminate E|].
      destruct p as [k v]. simpl in Hempty. destruct (N.eqb h k); discriminate.
    + intros Hi. apply H2 in Hi. rewrite Hi in E. discriminate.
  - apply W.
Qed.

Lemma wf_do_restart s now : wf s -> wf (do_restart s now).
Proof.
  intros W. unfold do_restart. pose proof (wf_store s W) as Hs.
  destruct (sc_store s) as [[a idl]|]; cbn [fst snd].
  - apply wf_do_update; cbn [sc_store]; assumption.
  - apply wf_do_update; cbn [sc_store]; [constructor | exact I].
Qed.

(* the bare constructor state is not a served state: cmd/kvass/sidecar.go always calls Load() first *)
Lemma wf_start now0 : wf (sidecar_start now0).
Proof.
  unfold sidecar_start, do_restart. cbn [sc_store fresh_sidecar fst snd].
  apply wf_do_update; cbn; [constructor | exact I].
Qed.

Lemma wf_step s op : wf s -> op_unique op -> wf (sc_step s op).
Proof.
  intros W U. destruct op as [req now ok|h r stopped|now]; cbn [sc_step].
  - apply wf_do_update; [exact U | apply W].
  - now apply wf_do_scrape.
  - now apply wf_do_restart.
Qed.

Theorem wf_reachable now0 ops : Forall op_unique ops -> wf (sc_run (sidecar_start now0) ops).
Proof.
  unfold sc_run. generalize (wf_start now0). generalize (sidecar_start now0).
  induction ops as [|op ops IH]; intros s W U; simpl; [assumption|].
  inversion U; subst. apply IH; [now apply wf_step | assumption].
Qed.

(* the idle instant: set when the assignment becomes empty, kept while it stays empty, cleared when a target arrives *)
Theorem idle_update s req now ok :
  let s' := fst (do_update s req now ok) in
  (sc_status s' = [] -> sc_idle s' = match sc_idle s with Some t => Some t | None => Some now end) /\
  (sc_status s' <> [] -> sc_idle s' = None).
Proof.
  cbn zeta. unfold do_update. destruct ok; cbn [fst sc_status sc_idle]; apply update_idle_spec.
Qed.

Theorem idle_scrape s h r stopped : sc_idle (do_scrape s h r stopped) = sc_idle s.
Proof. unfold do_scrape. destruct (afind h (sc_status s)); reflexivity. Qed.

(* after an acknowledged update the store holds exactly the assignment and idle instant in memory *)
Theorem store_after_ack s req now :
  let s' := fst (do_update s req now true) in sc_store s' = Some (sc_targets s', sc_idle s') /\ sc_targets s' = req.
Proof. cbn. auto. Qed.

(* a restart resumes the stored assignment; an idle instant recorded with an empty assignment survives it *)
Theorem restart_resumes s a idl now :
  sc_store s = Some (a, idl) -> NoDup (hashes a) ->
  let s' := do_restart s now in
  sc_targets s' = a /\ akeys (sc_status s') = hashes a /\
  (forall t, In t (all_targets a) ->
     afind (t_hash t) (sc_status s') =
     Some {| ss_state := t_state t; ss_health := Unknown; ss_series := t_series t; ss_total := t_total t;
             ss_times := 0; ss_window := []; ss_err := false; ss_last := None |}) /\
  (all_targets a = [] -> forall t, idl = Some t -> sc_idle s' = Some t) /\
  (all_targets a <> [] -> sc_idle s' = None).
Proof.
  intros Hs Hnd. cbn zeta. unfold do_restart. rewrite Hs. cbn [fst snd].
  destruct (update_status_spec [] a Hnd) as [Hk Hf].
  unfold do_update. cbn [fst sc_targets sc_status sc_idle].
  split; [reflexivity|]. split; [exact Hk|]. split; [|split].
  - intros t Hin. rewrite (Hf t Hin). now rewrite entry_for_new.
  - intros He t ->. unfold update_status. rewrite He. reflexivity.
  - intros Hne. unfold update_idle. destruct (update_status [] a) eqn:E; [|reflexivity].
    exfalso. apply Hne. assert (H : hashes a = []) by (rewrite <- Hk; reflexivity).
    unfold hashes in H. now apply map_eq_nil in H.
Qed.

(* ---- C14: window ---- *)
Definition lastn {A} (n : nat) (l : list A) : list A := skipn (length l - n) l.

Lemma push_window_lastn l x : push_window (lastn 3 l) x = lastn 3 (l ++ [x]).
Proof.
  unfold push_window, lastn. rewrite app_length. cbn [length].
  destruct (Nat.le_gt_cases (length l) 2) as [Hs|Hl].
  - replace (length l - 3)%nat with 0%nat by lia. replace (length l + 1 - 3)%nat with 0%nat by lia.
    cbn [skipn]. destruct (Nat.ltb_spec (length l) 3); [reflexivity|lia].
  - rewrite skipn_length. destruct (Nat.ltb_spec (length l - (length l - 3)) 3); [lia|].
    replace (length l + 1 - 3)%nat with (S (length l - 3)) by lia.
    rewrite skipn_app. replace (S (length l - 3) - length l)%nat with 0%nat by lia. cbn [skipn]. f_equal.
    generalize (length l - 3)%nat. intros n. clear. revert l. induction n as [|n IH]; intros l.
    + destruct l; reflexivity.
    + destruct l as [|y l]; [reflexivity|]. cbn [skipn]. rewrite IH. reflexivity.
Qed.

Definition successes (rs : list (scrape_result * bool)) : list (Z * Z) :=
  flat_map (fun r => match fst r with ScrOk s t => [(s, t)] | ScrFail => [] end) rs.
Definition run_scrapes (st : sstat) (rs : list (scrape_result * bool)) : sstat :=
  fold_left (fun st r => scrape_status st (fst r) (snd r)) rs st.

Lemma successes_app a b : successes (a ++ b) = successes a ++ successes b.
Proof. unfold successes. apply flat_map_app. Qed.

Theorem window_spec es et rs :
  let st := run_scrapes (new_sstat es et) rs in
  let ok := successes rs in
  ss_window st = lastn 3 (map fst ok) /\
  ss_times st = N.of_nat (length rs) /\
  (ok = [] -> ss_series st = es /\ ss_total st = et) /\
  (ok <> [] -> ss_series st = window_mean (lastn 3 (map fst ok)) /\ ss_total st = snd (last ok (0, 0))).
Proof.
  induction rs as [|r rs IH] using rev_ind; cbn zeta.
  - cbn. split; [reflexivity|]. split; [reflexivity|]. split; [auto|]. intros Hc. now contradiction Hc.
  - cbn zeta in IH. destruct IH as [Hw [Ht [He Hn]]].
    unfold run_scrapes in *. rewrite fold_left_app. cbn [fold_left].
    rewrite successes_app, app_length. cbn [length].
    set (st := fold_left (fun st r => scrape_status st (fst r) (snd r)) rs (new_sstat es et)) in *.
    destruct r as [[s t|] stopped]; cbn [fst snd scrape_status successes flat_map app].
    + cbn [ss_window ss_times ss_series ss_total]. rewrite Hw, push_window_lastn, map_app. cbn [map fst].
      split; [reflexivity|]. split; [lia|]. split.
      * intros H. destruct (successes rs); discriminate.
      * intros _. split; [reflexivity|]. rewrite last_last. reflexivity.
    + cbn [ss_window ss_times ss_series ss_total]. rewrite app_nil_r.
      split; [assumption|]. split; [lia|]. split; assumption.
Qed.

(* health and counter after one proxied scrape of an assigned target (C13, bookkeeping part) *)
Theorem scrape_status_spec st r stopped :
  let st' := scrape_status st r stopped in
  ss_times st' = (ss_times st + 1)%N /\ ss_state st' = ss_state st /\
  (ss_health st' = Good <-> (exists a b, r = ScrOk a b) /\ stopped = false) /\
  (ss_health st' = Bad <-> ss_err st' = true) /\ ss_health st' <> Unknown.
Proof.
  cbn zeta. destruct r as [a b|], stopped; cbn; repeat split; try discriminate; try tauto; eauto;
    try (intros [[? [? ?]] ?]; discriminate); try (intros [? ?]; discriminate).
Qed.

(* ---- C14: runtime info ---- *)
Theorem runtime_spec prom s :
  rt_proc s = sum_total (sc_status s) /\ sum_series (sc_status s) <= rt_head prom s /\ prom <= rt_head prom s /\
  (rt_head prom s = prom \/ rt_head prom s = sum_series (sc_status s)).
Proof. unfold rt_proc, rt_head. repeat split; lia. Qed.

(* ---- /samples/: what the endpoint serves per job adds up, and is the last-scrape statistics of the job's targets ---- *)
Lemma insert_samp_in x t l : In x (insert_samp t l) -> x = t \/ In x l.
Proof.
  induction l as [|y r IH]; cbn; [intros [H|[]]; auto|].
  destruct (sm_job t <=? sm_job y)%N; cbn; [intros [H|H]; auto|]. intros [H|H]; [auto|]. destruct (IH H); auto.
Qed.
Lemma model_samples_in s m : In m (model_samples s) ->
  exists jt, In jt (sc_targets s) /\ m = samples_of_job (sc_status s) (fst jt) (snd jt).
Proof.
  unfold model_samples. induction (sc_targets s) as [|jt r IH]; cbn; [intros []|].
  intros H. apply insert_samp_in in H. destruct H as [->|H]; [exists jt; auto|]. destruct (IH H) as [jt' [A B]]. exists jt'. auto.
Qed.
Theorem samples_add_up s m : In m (model_samples s) ->
  sm_scraped m = fst (sm_keep m) + fst (sm_drop m) /\ fst (sm_keep m) = snd (sm_keep m) /\ fst (sm_drop m) = 0.
Proof.
  intros H. destruct (model_samples_in s m H) as [jt [_ ->]]. unfold samples_of_job. cbn. lia.
Qed.
(* a failed scrape empties the target's contribution, a whole payload replaces it (also when a stop reason is set) *)
Theorem last_stats_after_scrape st r stopped :
  ss_last (scrape_status st r stopped) = match r with ScrOk kept all => Some (kept, all) | ScrFail => None end.
Proof. destruct r; reflexivity. Qed.

(* ---- the generated file (model_injected): per job exactly the hashes of the targets assigned to that job ---- *)
Lemma insert_N_in x y l : In y (insert_N x l) <-> y = x \/ In y l.
Proof.
  induction l as [|z r IH]; cbn; [intuition|]. destruct (x <=? z)%N; cbn; [intuition|]. rewrite IH. intuition.
Qed.
Lemma sort_N_in y l : In y (fold_right insert_N [] l) <-> In y l.
Proof. induction l as [|x r IH]; cbn; [reflexivity|]. rewrite insert_N_in, IH. intuition. Qed.
Lemma merge_N_in y a b : In y (fold_right insert_N b a) <-> In y a \/ In y b.
Proof. induction a as [|x r IH]; cbn; [intuition|]. rewrite insert_N_in, IH. intuition. Qed.

Definition job_has (l : list (N * list N)) (j h : N) : Prop := exists hs, In (j, hs) l /\ In h hs.

Lemma insert_job_has j hs l j' h : job_has (insert_job j hs l) j' h <-> (j' = j /\ In h hs) \/ job_has l j' h.
Proof.
  unfold job_has. induction l as [|[k ks] r IH]; cbn [insert_job].
  - split.
    + intros [x [[E|[]] Hh]]. injection E as <- <-. now left.
    + intros [[-> Hh]|[x [[] _]]]. exists hs. split; [now left|exact Hh].
  - destruct (N.eqb_spec j k) as [<-|Hjk].
    + split.
      * intros [x [[E|Hin] Hh]].
        -- injection E as <- <-. apply merge_N_in in Hh. destruct Hh as [Hh|Hh]; [now left|right; exists ks; split; [now left|exact Hh]].
        -- right. exists x. split; [now right|exact Hh].
      * intros [[-> Hh]|[x [[E|Hin] Hh]]].
        -- exists (fold_right insert_N ks hs). split; [now left|]. apply merge_N_in. now left.
        -- injection E as <- <-. exists (fold_right insert_N ks hs). split; [now left|]. apply merge_N_in. now right.
        -- exists x. split; [now right|exact Hh].
    + destruct (j <? k)%N.
      * split.
        -- intros [x [[E|Hin] Hh]]; [injection E as <- <-; now left|]. right. exists x. auto.
        -- intros [[-> Hh]|[x [Hin Hh]]]; [exists hs; split; [now left|exact Hh]|]. exists x. split; [now right|exact Hh].
      * split.
        -- intros [x [[E|Hin] Hh]].
           ++ right. exists x. split; [left; exact E|exact Hh].
           ++ destruct (proj1 IH (ex_intro _ x (conj Hin Hh))) as [H|[y [Hy Hh']]]; [now left|]. right. exists y. split; [now right|exact Hh'].
        -- intros [[-> Hh]|[x [[E|Hin] Hh]]].
           ++ destruct (proj2 IH (or_introl (conj eq_refl Hh))) as [y [Hy Hh']]. exists y. split; [now right|exact Hh'].
           ++ exists x. split; [left; exact E|exact Hh].
           ++ destruct (proj2 IH (or_intror (ex_intro _ x (conj Hin Hh)))) as [y [Hy Hh']]. exists y. split; [now right|exact Hh'].
Qed.

Theorem injected_spec s j h :
  job_has (model_injected s) j h <-> exists ts, In (j, ts) (sc_targets s) /\ In h (map t_hash ts).
Proof.
  unfold model_injected.
  assert (Hf : forall l, job_has (filter (fun jh : N * list N => negb (match snd jh with [] => true | _ => false end)) l) j h <-> job_has l j h).
  { intros l. unfold job_has. split.
    - intros [hs [Hin Hh]]. apply filter_In in Hin. exists hs. tauto.
    - intros [hs [Hin Hh]]. exists hs. split; [|exact Hh]. apply filter_In. split; [exact Hin|]. destruct hs; [destruct Hh|reflexivity]. }
  rewrite Hf. induction (sc_targets s) as [|[k ts] r IH]; cbn [fold_right fst snd].
  - split; [intros [x [[] _]]|intros [x [[] _]]].
  - rewrite insert_job_has, sort_N_in, IH. split.
    + intros [[-> Hh]|[x [Hin Hh]]]; [exists ts; split; [now left|exact Hh]|exists x; split; [now right|exact Hh]].
    + intros [x [[E|Hin] Hh]]; [injection E as <- <-; now left|right; exists x; auto].
Qed.

Theorem injected_after_update s req now ok j h :
  job_has (model_injected (fst (do_update s req now ok))) j h <-> exists ts, In (j, ts) req /\ In h (map t_hash ts).
Proof. rewrite injected_spec. unfold do_update. destruct ok; reflexivity. Qed.
