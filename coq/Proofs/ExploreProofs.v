(* Proofs/ExploreProofs.v — C20: accounting invariant of the explorer LTS (no lost retry, no duplicate work per
   entry), the one-shot trigger, silence after success, and the estimate handed to the coordinator. *)
From KV Require Import Base.Util Base.AMap Model.Coordinator Model.Explore Proofs.CoordBasics.
Local Open Scope list_scope.

Definition cnt (id : N) (l : list N) : nat := count_occ N.eq_dec l id.
(* how often the object is somewhere between "asked for" and "probe finished for good" *)
Definition pend (s : xstate) (id : N) : nat := cnt id (x_queue s) + cnt id (x_inflight s) + cnt id (x_timers s).
(* asked for, no successful probe yet *)
Definition live (e : entry) : bool := e_exploring e && negb (health_eqb (e_health e) Good).

Lemma cnt_snoc id l x : cnt id (l ++ [x]) = (cnt id l + (if N.eq_dec x id then 1 else 0))%nat.
Proof. unfold cnt. rewrite count_occ_app. simpl. destruct (N.eq_dec x id); lia. Qed.

Lemma cnt_remove_first id x l :
  cnt id (remove_first x l) = if N.eq_dec x id then pred (cnt id l) else cnt id l.
Proof.
  unfold cnt. induction l as [|y r IH]; simpl; [destruct (N.eq_dec x id); reflexivity|].
  destruct (N.eqb_spec y x) as [->|Hne].
  - destruct (N.eq_dec x id); simpl; reflexivity.
  - simpl. rewrite IH. destruct (N.eq_dec y id) as [->|Hy], (N.eq_dec x id) as [->|Hx]; try congruence; reflexivity.
Qed.

Lemma cnt_in id l : (0 < cnt id l)%nat <-> In id l.
Proof. unfold cnt. symmetry. apply count_occ_In. Qed.

Lemma existsb_in id l : existsb (N.eqb id) l = true <-> In id l.
Proof.
  rewrite existsb_exists. split; [intros [x [Hin Hx]]; apply N.eqb_eq in Hx; now subst | intros H; exists id; split; [assumption | apply N.eqb_refl]].
Qed.

Record Inv (s : xstate) : Prop := {
  inv_le : forall id, (pend s id <= 1)%nat;
  inv_live : forall id, pend s id = 1%nat -> live (obj s id) = true;
  inv_tracked : forall h id, afind h (x_table s) = Some id -> live (obj s id) = true -> pend s id = 1%nat;
  inv_hash : forall h id, afind h (x_table s) = Some id -> e_hash (obj s id) = h /\ (id < x_next s)%N;
  inv_fresh : forall id, (x_next s <= id)%N -> pend s id = 0%nat /\ afind id (x_objs s) = None;
  inv_idle : forall id, e_exploring (obj s id) = false -> e_health (obj s id) = Unknown;
  inv_nodup : NoDup (akeys (x_table s));
}.

Lemma inv_init w : Inv (x_init w).
Proof.
  constructor; unfold pend; cbn; auto; try discriminate; try constructor.
Qed.

(* ---- dispatch ---- *)
(* the worker drops a queued object that is no longer the tracked one; everything tracked keeps its place *)
Definition tracked_id (s : xstate) (id : N) : bool :=
  match afind (e_hash (obj s id)) (x_table s) with Some id' => N.eqb id' id | None => false end.

Lemma obj_same s s' id : x_objs s' = x_objs s -> obj s' id = obj s id.
Proof. unfold obj. now intros ->. Qed.

Lemma cnt_cons id x l : cnt id (x :: l) = ((if N.eq_dec x id then 1 else 0) + cnt id l)%nat.
Proof. unfold cnt. simpl. destruct (N.eq_dec x id); reflexivity. Qed.

(* a worker takes the head of the queue and starts its probe *)
Lemma inv_start s id rest : Inv s -> x_queue s = id :: rest ->
  Inv {| x_table := x_table s; x_objs := x_objs s; x_queue := rest; x_inflight := x_inflight s ++ [id];
         x_timers := x_timers s; x_next := x_next s; x_workers := x_workers s;
         x_probes := x_probes s ++ [e_hash (obj s id)]; x_info := x_info s |}.
Proof.
  intros I Eq.
  set (s' := {| x_table := x_table s; x_objs := x_objs s; x_queue := rest; x_inflight := x_inflight s ++ [id];
                x_timers := x_timers s; x_next := x_next s; x_workers := x_workers s;
                x_probes := x_probes s ++ [e_hash (obj s id)]; x_info := x_info s |}).
  assert (Hp : forall id', pend s' id' = pend s id').
  { intros id'. unfold pend, s'. cbn [x_queue x_inflight x_timers]. rewrite Eq, cnt_snoc, cnt_cons. destruct (N.eq_dec id id'); lia. }
  assert (Ho : forall id', obj s' id' = obj s id') by (intros id'; reflexivity).
  constructor; change (x_table s') with (x_table s); change (x_next s') with (x_next s).
  - intros id'. rewrite Hp. apply I.
  - intros id' H. rewrite Hp in H. rewrite Ho. apply (inv_live s I id' H).
  - intros h id' Ht Hl. rewrite Hp. rewrite Ho in Hl. now apply (inv_tracked s I h id').
  - intros h id' Ht. rewrite Ho. now apply (inv_hash s I h id').
  - intros id' Hn. rewrite Hp. apply (inv_fresh s I id' Hn).
  - intros id'. rewrite Ho. apply I.
  - apply I.
Qed.

(* a worker takes the head of the queue and finds that it is no longer tracked: dropped *)
Lemma inv_drop s id rest : Inv s -> x_queue s = id :: rest -> tracked_id s id = false ->
  Inv {| x_table := x_table s; x_objs := x_objs s; x_queue := rest; x_inflight := x_inflight s;
         x_timers := x_timers s; x_next := x_next s; x_workers := x_workers s; x_probes := x_probes s; x_info := x_info s |}.
Proof.
  intros I Eq Hut.
  assert (Hp : forall id', pend {| x_table := x_table s; x_objs := x_objs s; x_queue := rest; x_inflight := x_inflight s;
                                   x_timers := x_timers s; x_next := x_next s; x_workers := x_workers s; x_probes := x_probes s;
                                   x_info := x_info s |} id' = (pend s id' - (if N.eq_dec id id' then 1 else 0))%nat).
  { intros id'. unfold pend. cbn [x_queue x_inflight x_timers]. rewrite Eq, cnt_cons. destruct (N.eq_dec id id'); lia. }
  assert (Hnt : forall h id', afind h (x_table s) = Some id' -> id' <> id).
  { intros h id' Ht ->. unfold tracked_id in Hut. destruct (inv_hash s I h id Ht) as [Hh _]. rewrite Hh, Ht, N.eqb_refl in Hut. discriminate. }
  constructor; cbn [x_table x_next x_objs].
  - intros id'. rewrite Hp. pose proof (inv_le s I id'). lia.
  - intros id' H. rewrite Hp in H. assert (Hs : pend s id' = 1%nat) by (pose proof (inv_le s I id'); destruct (N.eq_dec id id'); lia).
    apply (inv_live s I id' Hs).
  - intros h id' Ht Hl. rewrite Hp. pose proof (Hnt h id' Ht). destruct (N.eq_dec id id'); [congruence|].
    rewrite Nat.sub_0_r. now apply (inv_tracked s I h id').
  - apply I.
  - intros id' Hn. destruct (inv_fresh s I id' Hn) as [P0 O0]. split; [rewrite Hp; lia|exact O0].
  - apply I.
  - apply I.
Qed.

(* a worker takes the head of the queue but there is no scrape info for its job: failed at once, retry armed *)
Lemma inv_noinfo s id rest : Inv s -> x_queue s = id :: rest -> tracked_id s id = true ->
  let e := obj s id in
  Inv {| x_table := x_table s;
         x_objs := aset id {| e_hash := e_hash e; e_job := e_job e; e_exploring := e_exploring e; e_health := Bad;
                              e_series := e_series e; e_total := e_total e; e_err := true; e_window := e_window e |} (x_objs s);
         x_queue := rest; x_inflight := x_inflight s; x_timers := x_timers s ++ [id];
         x_next := x_next s; x_workers := x_workers s; x_probes := x_probes s; x_info := x_info s |}.
Proof.
  intros I Eq Htr e. set (e' := {| e_hash := e_hash e; e_job := e_job e; e_exploring := e_exploring e; e_health := Bad;
                                   e_series := e_series e; e_total := e_total e; e_err := true; e_window := e_window e |}).
  set (s' := {| x_table := x_table s; x_objs := aset id e' (x_objs s); x_queue := rest; x_inflight := x_inflight s;
                x_timers := x_timers s ++ [id]; x_next := x_next s; x_workers := x_workers s; x_probes := x_probes s;
                x_info := x_info s |}).
  assert (Hp : forall id', pend s' id' = pend s id').
  { intros id'. unfold pend, s'. cbn [x_queue x_inflight x_timers]. rewrite Eq, cnt_snoc, cnt_cons. destruct (N.eq_dec id id'); lia. }
  assert (Ho : forall id', obj s' id' = if N.eq_dec id id' then e' else obj s id').
  { intros id'. unfold obj, s'. cbn [x_objs]. destruct (N.eq_dec id id') as [<-|Hne]; [now rewrite afind_aset_eq|now rewrite afind_aset_neq]. }
  assert (Hin : (0 < cnt id (x_queue s))%nat) by (rewrite Eq, cnt_cons; destruct (N.eq_dec id id); [lia|congruence]).
  assert (Hp1 : pend s id = 1%nat) by (pose proof (inv_le s I id); unfold pend in *; lia).
  pose proof (inv_live s I id Hp1) as Hlive. unfold live in Hlive. apply andb_true_iff in Hlive. destruct Hlive as [Hexp _].
  fold e in Hexp.
  assert (Hlt : (id < x_next s)%N).
  { unfold tracked_id in Htr. destruct (afind (e_hash (obj s id)) (x_table s)) as [id2|] eqn:Et; [|discriminate].
    apply N.eqb_eq in Htr. subst id2. apply (inv_hash s I _ id Et). }
  constructor; change (x_table s') with (x_table s); change (x_next s') with (x_next s).
  - intros id'. rewrite Hp. apply I.
  - intros id' H. rewrite Hp in H. rewrite Ho. destruct (N.eq_dec id id') as [<-|]; [|now apply (inv_live s I id')].
    unfold live, e'. cbn. now rewrite Hexp.
  - intros h id' Ht Hl. rewrite Hp. rewrite Ho in Hl. destruct (N.eq_dec id id') as [<-|]; [exact Hp1|now apply (inv_tracked s I h id')].
  - intros h id' Ht. rewrite Ho. destruct (inv_hash s I h id' Ht) as [Hh Hl]. split; [|exact Hl].
    destruct (N.eq_dec id id') as [<-|]; [exact Hh|exact Hh].
  - intros id' Hn. destruct (inv_fresh s I id' Hn) as [P0 O0]. split; [now rewrite Hp|].
    unfold s'. cbn [x_objs]. rewrite afind_aset_neq; [exact O0|]. intros <-. lia.
  - intros id'. rewrite Ho. destruct (N.eq_dec id id') as [<-|]; [|apply I]. unfold e'. cbn. intros He. congruence.
  - apply I.
Qed.

Lemma inv_dispatch fuel : forall s, Inv s -> Inv (dispatch fuel s).
Proof.
  induction fuel as [|f IH]; intros s I; cbn [dispatch]; [exact I|].
  destruct (x_queue s) as [|id rest] eqn:Eq; [exact I|].
  destruct (Nat.ltb (length (x_inflight s)) (x_workers s)); [|exact I].
  fold (tracked_id s id). destruct (tracked_id s id) eqn:Etr.
  - destruct (existsb (N.eqb (e_job (obj s id))) (x_info s)).
    + apply IH. now apply (inv_start s id rest I Eq).
    + apply IH. now apply (inv_noinfo s id rest I Eq Etr).
  - apply IH. now apply (inv_drop s id rest I Eq Etr).
Qed.

Lemma inv_settle s : Inv s -> Inv (settle s).
Proof. intros I. unfold settle. now apply inv_dispatch. Qed.

(* ---- set_obj ---- *)
Lemma obj_set_eq s id e : obj (set_obj s id e) id = e.
Proof. unfold obj, set_obj. cbn. now rewrite afind_aset_eq. Qed.
Lemma obj_set_neq s id id' e : id <> id' -> obj (set_obj s id e) id' = obj s id'.
Proof. intros H. unfold obj, set_obj. cbn. now rewrite afind_aset_neq. Qed.

Lemma pend_zero_not_live s id : Inv s -> live (obj s id) = false -> (forall h, afind h (x_table s) = Some id -> True) -> pend s id <> 1%nat.
Proof. intros I Hl _ H. rewrite (inv_live s I id H) in Hl. discriminate. Qed.

(* ---- Get ---- *)
Lemma inv_get s h : Inv s -> Inv (do_get s h).
Proof.
  intros I. unfold do_get. destruct (afind h (x_table s)) as [id|] eqn:Et; [|assumption].
  destruct (e_exploring (obj s id)) eqn:Ee; [assumption|].
  assert (Hnl : live (obj s id) = false) by (unfold live; now rewrite Ee).
  assert (Hp0 : pend s id = 0%nat).
  { pose proof (inv_le s I id). destruct (pend s id) as [|[|n]] eqn:E; [reflexivity | | lia].
    rewrite (inv_live s I id E) in Hnl. discriminate. }
  pose proof (inv_idle s I id Ee) as Hunk.
  destruct (inv_hash s I h id Et) as [Hh Hlt].
  set (e' := {| e_hash := e_hash (obj s id); e_job := e_job (obj s id); e_exploring := true; e_health := e_health (obj s id);
                e_series := e_series (obj s id); e_total := e_total (obj s id); e_err := e_err (obj s id); e_window := e_window (obj s id) |}).
  assert (Hpend : forall id', pend {| x_table := x_table (set_obj s id e'); x_objs := x_objs (set_obj s id e');
                                      x_queue := x_queue (set_obj s id e') ++ [id]; x_inflight := x_inflight (set_obj s id e');
                                      x_timers := x_timers (set_obj s id e'); x_next := x_next (set_obj s id e');
                                      x_workers := x_workers (set_obj s id e'); x_probes := x_probes (set_obj s id e'); x_info := x_info (set_obj s id e') |} id'
                              = (pend s id' + (if N.eq_dec id id' then 1 else 0))%nat).
  { intros id'. unfold pend. cbn [x_queue x_inflight x_timers set_obj]. rewrite cnt_snoc. lia. }
  assert (Hobj : forall id', obj {| x_table := x_table (set_obj s id e'); x_objs := x_objs (set_obj s id e');
                                    x_queue := x_queue (set_obj s id e') ++ [id]; x_inflight := x_inflight (set_obj s id e');
                                    x_timers := x_timers (set_obj s id e'); x_next := x_next (set_obj s id e');
                                    x_workers := x_workers (set_obj s id e'); x_probes := x_probes (set_obj s id e'); x_info := x_info (set_obj s id e') |} id'
                             = if N.eq_dec id id' then e' else obj s id').
  { intros id'. destruct (N.eq_dec id id') as [<-|Hne].
    - apply (obj_set_eq s id e').
    - apply (obj_set_neq s id id' e' Hne). }
  constructor.
  - intros id'. rewrite Hpend. destruct (N.eq_dec id id') as [<-|]; [lia | pose proof (inv_le s I id'); lia].
  - intros id'. rewrite Hpend, Hobj. destruct (N.eq_dec id id') as [<-|].
    + intros _. unfold live, e'. cbn. rewrite Hunk. reflexivity.
    + rewrite Nat.add_0_r. apply I.
  - intros h' id'. cbn [x_table set_obj]. rewrite Hpend, Hobj. destruct (N.eq_dec id id') as [<-|].
    + intros _ _. lia.
    + rewrite Nat.add_0_r. apply I.
  - intros h' id'. cbn [x_table x_next set_obj]. rewrite Hobj. destruct (N.eq_dec id id') as [<-|]; [|apply I].
    intros H'. destruct (inv_hash s I h' id H') as [A B]. split; [exact A | exact B].
  - intros id'. cbn [x_next x_objs set_obj]. intros Hge. rewrite Hpend.
    destruct (inv_fresh s I id' Hge) as [A B]. destruct (N.eq_dec id id') as [<-|Hne]; [lia|].
    split; [lia|]. now rewrite afind_aset_neq.
  - intros id'. rewrite Hobj. destruct (N.eq_dec id id') as [<-|]; [discriminate | apply I].
  - cbn [x_table set_obj]. apply I.
Qed.

(* ---- UpdateTargets ---- *)
Record UpdInv (s acc : xstate) : Prop := {
  ui_queue : x_queue acc = x_queue s; ui_inflight : x_inflight acc = x_inflight s; ui_timers : x_timers acc = x_timers s;
  ui_next : (x_next s <= x_next acc)%N;
  ui_objs_old : forall id, (id < x_next s)%N -> afind id (x_objs acc) = afind id (x_objs s);
  ui_objs_none : forall id, (x_next acc <= id)%N -> afind id (x_objs acc) = None;
  ui_objs_new : forall id, (x_next s <= id < x_next acc)%N -> e_exploring (obj acc id) = false /\ e_health (obj acc id) = Unknown;
  ui_table : forall h id, afind h (x_table acc) = Some id ->
             afind h (x_table s) = Some id \/ ((x_next s <= id < x_next acc)%N /\ e_hash (obj acc id) = h);
  ui_nodup : NoDup (akeys (x_table acc));
}.

Lemma upd_visit_inv s acc jh :
  (forall h id, afind h (x_table s) = Some id -> (id < x_next s)%N) ->
  UpdInv s acc -> UpdInv s (update_visit (x_table s) acc jh).
Proof.
  intros Hold U. destruct jh as [job h]. unfold update_visit.
  destruct (afind h (x_table s)) as [id|] eqn:Eo.
  - constructor; cbn [x_queue x_inflight x_timers x_next x_objs x_table].
    + apply U. + apply U. + apply U. + apply U. + apply U. + apply U.
    + intros id' Hr. apply (ui_objs_new _ _ U id' Hr).
    + intros h' id'. destruct (N.eq_dec h h') as [<-|Hne].
      * rewrite afind_aset_eq. intros [= <-]. now left.
      * rewrite afind_aset_neq by assumption. intros H'. destruct (ui_table _ _ U h' id' H') as [A|[A B]]; [now left | right; split; assumption].
    + apply NoDup_akeys_aset. apply U.
  - pose proof (ui_next _ _ U) as Hn.
    constructor; cbn [x_queue x_inflight x_timers x_next x_objs x_table].
    + apply U. + apply U. + apply U.
    + lia.
    + intros id Hlt. rewrite afind_aset_neq by lia. now apply U.
    + intros id Hge. rewrite afind_aset_neq by lia. apply U. lia.
    + intros id Hr. unfold obj. cbn [x_objs]. destruct (N.eq_dec (x_next acc) id) as [<-|Hne].
      * rewrite afind_aset_eq. cbn. auto.
      * rewrite afind_aset_neq by assumption. apply (ui_objs_new _ _ U id). lia.
    + intros h' id'. destruct (N.eq_dec h h') as [<-|Hne].
      * rewrite afind_aset_eq. intros [= <-]. right. split; [lia|].
        unfold obj. cbn [x_objs]. rewrite afind_aset_eq. reflexivity.
      * rewrite afind_aset_neq by assumption. intros H'. destruct (ui_table _ _ U h' id' H') as [A|[A B]]; [now left|].
        right. split; [lia|]. unfold obj in *. cbn [x_objs]. rewrite afind_aset_neq by lia. exact B.
    + apply NoDup_akeys_aset. apply U.
Qed.

Lemma inv_update s jobs : Inv s -> Inv (do_update s jobs).
Proof.
  intros I. unfold do_update.
  set (s00 := {| x_table := []; x_objs := x_objs s; x_queue := x_queue s; x_inflight := x_inflight s; x_timers := x_timers s;
                 x_next := x_next s; x_workers := x_workers s; x_probes := x_probes s; x_info := x_info s |}).
  set (pairs := flat_map (fun jl => map (fun h => (fst jl, h)) (snd jl)) jobs).
  assert (Hold : forall h id, afind h (x_table s) = Some id -> (id < x_next s)%N) by (intros h id H; apply (inv_hash s I h id H)).
  assert (U : UpdInv s (fold_left (update_visit (x_table s)) pairs s00)).
  { apply fold_left_inv; [|intros a b Ha; now apply upd_visit_inv].
    unfold s00. constructor; cbn [x_queue x_inflight x_timers x_next x_objs x_table]; try reflexivity.
    - intros id Hge. apply (inv_fresh s I id Hge).
    - intros id Hr. lia.
    - intros h id H. discriminate.
    - constructor. }
  set (r := fold_left (update_visit (x_table s)) pairs s00) in *.
  assert (Hpend : forall id, pend r id = pend s id).
  { intros id. unfold pend. now rewrite (ui_queue _ _ U), (ui_inflight _ _ U), (ui_timers _ _ U). }
  assert (Hobj : forall id, (id < x_next s)%N -> obj r id = obj s id).
  { intros id H. unfold obj. now rewrite (ui_objs_old _ _ U id H). }
  assert (Hlt : forall id, pend s id = 1%nat -> (id < x_next s)%N).
  { intros id H. destruct (N.lt_ge_cases id (x_next s)); [assumption|]. destruct (inv_fresh s I id); [assumption | lia]. }
  constructor.
  - intros id. rewrite Hpend. apply I.
  - intros id. rewrite Hpend. intros H. rewrite Hobj by now apply Hlt. now apply I.
  - intros h id Ht Hl. rewrite Hpend. destruct (ui_table _ _ U h id Ht) as [A|[A B]].
    + rewrite Hobj in Hl by (apply (inv_hash s I h id A)). eapply inv_tracked; eauto.
    + exfalso. destruct (ui_objs_new _ _ U id A) as [E _]. unfold live in Hl. rewrite E in Hl. discriminate.
  - intros h id Ht. destruct (ui_table _ _ U h id Ht) as [A|[A B]].
    + destruct (inv_hash s I h id A) as [C D]. rewrite Hobj by assumption. split; [assumption|]. pose proof (ui_next _ _ U). lia.
    + split; [assumption | lia].
  - intros id Hge. pose proof (ui_next _ _ U). rewrite Hpend. split; [apply (inv_fresh s I id); lia | now apply (ui_objs_none _ _ U)].
  - intros id. destruct (N.lt_ge_cases id (x_next s)) as [Hl|Hg].
    + rewrite Hobj by assumption. apply I.
    + intros _. destruct (N.lt_ge_cases id (x_next r)) as [Hl2|Hg2].
      * apply (ui_objs_new _ _ U id). lia.
      * unfold obj. now rewrite (ui_objs_none _ _ U id Hg2).
  - apply U.
Qed.

(* ---- ApplyConfig ---- *)
Lemma inv_apply s jobs : Inv s -> Inv (do_apply s jobs).
Proof.
  intros I. unfold do_apply.
  assert (Hsub : forall h id, afind h (filter (fun hi => existsb (N.eqb (e_job (obj s (snd hi)))) jobs) (x_table s)) = Some id ->
                              afind h (x_table s) = Some id).
  { intros h id H. apply afind_filter_nodup_inv in H; [tauto | apply I]. }
  constructor; try (intros; apply I; assumption).
  - intros h id Ht. apply Hsub in Ht. now apply (inv_tracked s I h id Ht).
  - intros h id Ht. apply Hsub in Ht. now apply (inv_hash s I h id Ht).
  - cbn [x_table]. apply NoDup_akeys_filter. apply I.
Qed.

(* ---- exploreOnce finishing ---- *)
Lemma find_inflight s h id : find (fun id => N.eqb (e_hash (obj s id)) h) (x_inflight s) = Some id -> In id (x_inflight s).
Proof. intros H. now apply find_some in H. Qed.

Lemma inv_done s h r : Inv s -> Inv (do_done s h r).
Proof.
  intros I. unfold do_done.
  destruct (find (fun id => N.eqb (e_hash (obj s id)) h) (x_inflight s)) as [id|] eqn:Ef; [|assumption].
  apply find_inflight in Ef.
  assert (Hin : (0 < cnt id (x_inflight s))%nat) by now apply cnt_in.
  assert (Hp1 : pend s id = 1%nat) by (pose proof (inv_le s I id); unfold pend in *; lia).
  assert (Hinfl : cnt id (x_inflight s) = 1%nat /\ cnt id (x_queue s) = 0%nat /\ cnt id (x_timers s) = 0%nat) by (unfold pend in Hp1; lia).
  destruct Hinfl as [Hi [Hq Ht]].
  pose proof (inv_live s I id Hp1) as Hlive. unfold live in Hlive. apply andb_true_iff in Hlive. destruct Hlive as [Hexp Hng].
  unfold finish_probe. set (e := obj s id) in *.
  match goal with |- Inv {| x_table := _; x_objs := _; x_queue := _; x_inflight := _; x_timers := ?tm; x_next := _; x_workers := _; x_probes := _; x_info := _ |} =>
    set (timers' := tm) end.
  match goal with |- context [set_obj s id ?ee] => set (e' := ee) in * end.
  assert (Hobj : forall id', obj (set_obj s id e') id' = if N.eq_dec id id' then e' else obj s id').
  { intros id'. destruct (N.eq_dec id id') as [<-|Hne]; [apply obj_set_eq | now apply obj_set_neq]. }
  assert (He' : e_exploring e' = true /\ e_hash e' = e_hash e /\ e_health e' <> Unknown).
  { unfold e'. destruct r; cbn; repeat split; auto; discriminate. }
  assert (Hpend : forall id', pend {| x_table := x_table (set_obj s id e'); x_objs := x_objs (set_obj s id e');
                                      x_queue := x_queue (set_obj s id e'); x_inflight := remove_first id (x_inflight (set_obj s id e'));
                                      x_timers := timers'; x_next := x_next (set_obj s id e');
                                      x_workers := x_workers (set_obj s id e'); x_probes := x_probes (set_obj s id e'); x_info := x_info (set_obj s id e') |} id'
                              = if N.eq_dec id id' then (match r with PFail => 1 | POk _ _ => 0 end)%nat else pend s id').
  { intros id'. unfold pend. cbn [x_queue x_inflight x_timers set_obj]. rewrite cnt_remove_first. unfold timers'.
    destruct (N.eq_dec id id') as [<-|Hne].
    - destruct r; cbn [x_timers set_obj]; rewrite ?cnt_snoc; try (destruct (N.eq_dec id id); [|congruence]); lia.
    - destruct r; cbn [x_timers set_obj]; rewrite ?cnt_snoc; try (destruct (N.eq_dec id id'); [congruence|]); lia. }
  constructor.
  - intros id'. rewrite Hpend. destruct (N.eq_dec id id'); [destruct r; lia | apply I].
  - intros id'. rewrite Hpend. unfold obj at 1. cbn [x_objs]. fold (obj (set_obj s id e') id'). rewrite Hobj.
    destruct (N.eq_dec id id') as [<-|]; [|apply I].
    destruct r; [discriminate|]. intros _. unfold live, e'. cbn. now rewrite Hexp.
  - intros h' id'. cbn [x_table set_obj]. rewrite Hpend. unfold obj at 1. cbn [x_objs]. fold (obj (set_obj s id e') id'). rewrite Hobj.
    destruct (N.eq_dec id id') as [<-|]; [|apply I].
    intros _. destruct r; [|reflexivity]. unfold live, e'. cbn. rewrite andb_false_r. discriminate.
  - intros h' id'. cbn [x_table x_next set_obj]. unfold obj at 1. cbn [x_objs]. fold (obj (set_obj s id e') id'). rewrite Hobj.
    destruct (N.eq_dec id id') as [<-|]; [|apply I].
    intros H'. destruct (inv_hash s I h' id H') as [A B]. destruct He' as [_ [Hh _]]. split; [now rewrite Hh | exact B].
  - intros id'. cbn [x_next x_objs set_obj]. intros Hge. rewrite Hpend.
    destruct (inv_fresh s I id' Hge) as [A B]. destruct (N.eq_dec id id') as [<-|Hne]; [lia|].
    split; [assumption|]. now rewrite afind_aset_neq.
  - intros id'. unfold obj at 1 2. cbn [x_objs]. fold (obj (set_obj s id e') id'). rewrite Hobj.
    destruct (N.eq_dec id id') as [<-|]; [|apply I]. destruct He' as [Hx _]. congruence.
  - cbn [x_table set_obj]. apply I.
Qed.

(* ---- retry timers ---- *)
Lemma inv_fire s id : Inv s -> Inv (fire s id).
Proof.
  intros I. unfold fire. destruct (existsb (N.eqb id) (x_timers s)) eqn:Eex; cbn [negb]; [|assumption].
  apply existsb_in in Eex. assert (Hin : (0 < cnt id (x_timers s))%nat) by now apply cnt_in.
  assert (Hp1 : pend s id = 1%nat) by (pose proof (inv_le s I id); unfold pend in *; lia).
  assert (Hparts : cnt id (x_timers s) = 1%nat /\ cnt id (x_queue s) = 0%nat /\ cnt id (x_inflight s) = 0%nat) by (unfold pend in Hp1; lia).
  destruct Hparts as [Ht [Hq Hi]].
  set (tracked := match afind (e_hash (obj s id)) (x_table s) with Some id' => N.eqb id' id | None => false end).
  assert (Hpend : forall id', pend {| x_table := x_table s; x_objs := x_objs s; x_queue := if tracked then x_queue s ++ [id] else x_queue s;
                                      x_inflight := x_inflight s; x_timers := remove_first id (x_timers s); x_next := x_next s;
                                      x_workers := x_workers s; x_probes := x_probes s; x_info := x_info s |} id'
                              = if N.eq_dec id id' then (if tracked then 1 else 0)%nat else pend s id').
  { intros id'. unfold pend. cbn [x_queue x_inflight x_timers]. rewrite cnt_remove_first.
    destruct tracked; rewrite ?cnt_snoc; destruct (N.eq_dec id id') as [<-|Hne]; try lia. }
  constructor.
  - intros id'. rewrite Hpend. destruct (N.eq_dec id id'); [destruct tracked; lia | apply I].
  - intros id'. rewrite Hpend. change (obj _ id') with (obj s id'). destruct (N.eq_dec id id') as [<-|]; [|apply I].
    intros _. now apply (inv_live s I id).
  - intros h' id'. cbn [x_table]. rewrite Hpend. change (obj _ id') with (obj s id').
    destruct (N.eq_dec id id') as [<-|]; [|apply I].
    intros Htab _. destruct (inv_hash s I h' id Htab) as [Hh _]. unfold tracked. rewrite Hh, Htab, N.eqb_refl. reflexivity.
  - intros h' id'. cbn [x_table x_next]. change (obj _ id') with (obj s id'). apply I.
  - intros id'. cbn [x_next x_objs]. intros Hge. rewrite Hpend. destruct (inv_fresh s I id' Hge) as [A B].
    destruct (N.eq_dec id id') as [<-|]; [lia | auto].
  - intros id'. change (obj _ id') with (obj s id'). apply I.
  - cbn [x_table]. apply I.
Qed.

Lemma inv_timers s : Inv s -> Inv (do_timers s).
Proof.
  intros I. unfold do_timers. generalize (x_timers s). intros l. revert s I.
  induction l as [|id l IH]; intros s I; simpl; [assumption|]. apply IH. now apply inv_fire.
Qed.

Lemma inv_step s op : Inv s -> Inv (x_step s op).
Proof.
  intros I. unfold x_step. apply inv_settle. destruct op.
  - now apply inv_get. - now apply inv_update. - now apply inv_apply. - now apply inv_done. - now apply inv_timers.
  - (* the scrape manager was reloaded: nothing of the explorer's own state moves *)
    destruct I as [a b c d e f g]. constructor; auto.
Qed.

Theorem inv_reachable w ops : Inv (x_run (x_init w) ops).
Proof.
  unfold x_run. generalize (inv_init w). generalize (x_init w).
  induction ops as [|op ops IH]; intros s I; simpl; [assumption|]. apply IH. now apply inv_step.
Qed.

(* ---- what the invariant says ---- *)
(* no lost retry, no duplicate work: a tracked entry that was asked for and has no successful probe yet is in exactly
   one of: the queue, a worker, a pending retry timer *)
Theorem accounted w ops h id :
  let s := x_run (x_init w) ops in
  afind h (x_table s) = Some id -> e_exploring (obj s id) = true -> e_health (obj s id) <> Good ->
  pend s id = 1%nat.
Proof.
  cbn zeta. intros Ht He Hh. apply (inv_tracked _ (inv_reachable w ops) h id Ht).
  unfold live. rewrite He. destruct (e_health (obj _ id)); try reflexivity. congruence.
Qed.

(* per entry at most one probe in flight; an entry whose last probe succeeded, or that was never asked for,
   is nowhere: no further probe of it will ever start *)
Theorem one_in_flight_per_entry w ops id :
  let s := x_run (x_init w) ops in (cnt id (x_inflight s) <= 1)%nat.
Proof. cbn zeta. pose proof (inv_le _ (inv_reachable w ops) id). unfold pend in *. lia. Qed.

Theorem quiet_after_success w ops id :
  let s := x_run (x_init w) ops in
  e_health (obj s id) = Good \/ e_exploring (obj s id) = false -> pend s id = 0%nat.
Proof.
  cbn zeta. set (s := x_run (x_init w) ops). intros H.
  pose proof (inv_le s (inv_reachable w ops) id) as Hle.
  destruct (pend s id) as [|[|n]] eqn:E; [reflexivity | | lia].
  pose proof (inv_live s (inv_reachable w ops) id E) as Hl. unfold live in Hl.
  apply andb_true_iff in Hl. destruct Hl as [Hx Hg]. destruct H as [H|H]; [rewrite H in Hg; discriminate | congruence].
Qed.

(* a probe only ever starts from the queue, the queue only grows by Get (once per entry) and by a retry of a tracked
   entry: the one-shot trigger *)
Theorem get_asks_once s h id :
  afind h (x_table s) = Some id ->
  (e_exploring (obj s id) = false -> x_queue (do_get s h) = x_queue s ++ [id] /\ e_exploring (obj (do_get s h) id) = true) /\
  (e_exploring (obj s id) = true -> do_get s h = s).
Proof.
  intros Ht. unfold do_get. rewrite Ht. split; intros He; rewrite He; [|reflexivity].
  cbn [x_queue set_obj]. split; [reflexivity|]. unfold obj. cbn [x_objs set_obj]. now rewrite afind_aset_eq.
Qed.

(* the estimate: after the first successful probe with counts (scraped, total), Get returns health up, no error,
   series = the Go mean of the one-element window, total = total *)
Theorem estimate_after_success s id scraped total :
  e_window (obj s id) = [] ->
  let s' := finish_probe s id (POk scraped total) in
  e_health (obj s' id) = Good /\ e_err (obj s' id) = false /\ e_total (obj s' id) = total /\
  e_series (obj s' id) = Base.Float64.div_round (0 + scraped) 1.
Proof.
  intros Hw. cbn zeta. unfold finish_probe. rewrite Hw.
  assert (Ho : forall st tm inf, obj {| x_table := x_table (set_obj s id st); x_objs := x_objs (set_obj s id st);
                                       x_queue := x_queue (set_obj s id st); x_inflight := inf; x_timers := tm;
                                       x_next := x_next (set_obj s id st); x_workers := x_workers (set_obj s id st);
                                       x_probes := x_probes (set_obj s id st); x_info := x_info (set_obj s id st) |} id = st).
  { intros st tm inf. unfold obj. cbn [x_objs set_obj]. now rewrite afind_aset_eq. }
  rewrite !Ho. cbn. auto.
Qed.

Theorem failed_probe_is_unhealthy s id :
  let s' := finish_probe s id PFail in
  e_health (obj s' id) = Bad /\ e_err (obj s' id) = true /\ In id (x_timers s').
Proof.
  cbn zeta. unfold finish_probe.
  assert (Ho : forall st tm inf, obj {| x_table := x_table (set_obj s id st); x_objs := x_objs (set_obj s id st);
                                       x_queue := x_queue (set_obj s id st); x_inflight := inf; x_timers := tm;
                                       x_next := x_next (set_obj s id st); x_workers := x_workers (set_obj s id st);
                                       x_probes := x_probes (set_obj s id st); x_info := x_info (set_obj s id st) |} id = st).
  { intros st tm inf. unfold obj. cbn [x_objs set_obj]. now rewrite afind_aset_eq. }
  rewrite !Ho. cbn [e_health e_err x_timers]. repeat split. apply in_or_app. right. now left.
Qed.

(* a probe attempt without scrape info for the job (the scrape manager has no client for it) is a failed probe: nothing
   is sent to the target, the entry shows as unhealthy with an error, and its retry timer is armed *)
Theorem noinfo_is_failed_probe s id rest :
  x_queue s = id :: rest -> (length (x_inflight s) < x_workers s)%nat -> tracked_id s id = true ->
  existsb (N.eqb (e_job (obj s id))) (x_info s) = false ->
  let s' := dispatch 1 s in
  e_health (obj s' id) = Bad /\ e_err (obj s' id) = true /\ In id (x_timers s') /\
  x_probes s' = x_probes s /\ x_inflight s' = x_inflight s /\ x_queue s' = rest.
Proof.
  intros Eq Hw Htr Hni. cbn zeta. cbn [dispatch]. rewrite Eq.
  assert (Hlt : Nat.ltb (length (x_inflight s)) (x_workers s) = true) by now apply Nat.ltb_lt.
  rewrite Hlt. unfold tracked_id in Htr. rewrite Htr, Hni. cbn [dispatch].
  match goal with |- context [obj ?S id] =>
    match S with {| x_table := _; x_objs := aset id ?E _; x_queue := _; x_inflight := _; x_timers := _; x_next := _; x_workers := _; x_probes := _; x_info := _ |} =>
      assert (Ho : obj S id = E) by (unfold obj; cbn [x_objs]; now rewrite afind_aset_eq) end end.
  rewrite Ho. cbn [e_health e_err x_timers x_probes x_inflight x_queue].
  split; [reflexivity|]. split; [reflexivity|]. split; [apply in_or_app; right; now left|]. auto.
Qed.
