(* Proofs/StoreProofs.v — C09: an interrupted save leaves either the previous or the new assignment. *)
From KV Require Import Base.Util Model.Store.
Local Open Scope list_scope.

Section P.
Context {B V : Type}.
Variable enc : V -> list B.
Variable dec : list B -> option V.
Hypothesis dec_enc : forall v, dec (enc v) = Some v.

Notation fs := (fs B).

(* appends only touch the temporary file *)
Lemma run_appends (s : fs) l :
  run_effects s (map AppendTmp l) =
  {| f_store := f_store s; f_tmp := match l with [] => f_tmp s | _ => Some (match f_tmp s with Some t => t ++ l | None => l end) end |}.
Proof.
  revert s. induction l as [|b l IH]; intros s; cbn [map run_effects fold_left]; [now destruct s|].
  change (fold_left apply_effect (map AppendTmp l) (apply_effect s (AppendTmp b))) with (run_effects (apply_effect s (AppendTmp b)) (map AppendTmp l)).
  rewrite IH. cbn [apply_effect f_store f_tmp]. f_equal.
  destruct l as [|c l']; [reflexivity|]. f_equal. destruct (f_tmp s); now rewrite <- ?app_assoc.
Qed.

Lemma store_unchanged_by_prefix (s : fs) es :
  (forall e, In e es -> e <> RenameTmp) -> f_store (run_effects s es) = f_store s.
Proof.
  revert s. induction es as [|e es IH]; intros s H; [reflexivity|]. cbn [run_effects fold_left].
  change (fold_left apply_effect es (apply_effect s e)) with (run_effects (apply_effect s e) es).
  rewrite IH by (intros e' He'; apply H; now right).
  destruct e; cbn; try reflexivity. exfalso. apply (H RenameTmp); [now left | reflexivity].
Qed.

Lemma complete_save (s : fs) v : run_effects s (save_effects enc v) = {| f_store := Some (enc v); f_tmp := None |}.
Proof.
  unfold save_effects, run_effects. cbn [fold_left]. rewrite fold_left_app. cbn [fold_left].
  change (fold_left apply_effect (map AppendTmp (enc v)) (apply_effect s TruncTmp)) with (run_effects (apply_effect s TruncTmp) (map AppendTmp (enc v))).
  rewrite run_appends. cbn [apply_effect f_store f_tmp]. destruct (enc v); reflexivity.
Qed.

(* restart without a crash *)
Theorem resume_after_save (s : fs) v : load dec (run_effects s (save_effects enc v)) = LoadOk v.
Proof. rewrite complete_save. unfold load. cbn. now rewrite dec_enc. Qed.

Lemma In_firstn {A} n (l : list A) x : In x (firstn n l) -> In x l.
Proof.
  revert l. induction n as [|n IH]; intros l H; [contradiction|].
  destruct l as [|y l]; [contradiction|]. destruct H as [H|H]; [now left | right; now apply IH].
Qed.

Lemma firstn_no_rename v n : (n < length (save_effects enc v))%nat ->
  forall e, In e (firstn n (save_effects enc v)) -> e <> RenameTmp.
Proof.
  intros Hn e He. unfold save_effects in *.
  assert (Hlen : length (TruncTmp :: map (@AppendTmp B) (enc v) ++ [RenameTmp]) = S (length (map (@AppendTmp B) (enc v)) + 1)%nat)
    by (cbn; now rewrite app_length).
  rewrite Hlen in Hn.
  change (TruncTmp :: map AppendTmp (enc v) ++ [RenameTmp]) with ((TruncTmp :: map (@AppendTmp B) (enc v)) ++ [RenameTmp]) in He.
  rewrite firstn_app in He. replace (n - length (TruncTmp :: map (@AppendTmp B) (enc v)))%nat with 0%nat in He by (cbn; lia).
  cbn [firstn] in He. rewrite app_nil_r in He. apply In_firstn in He.
  destruct He as [<-|He]; [discriminate|]. apply in_map_iff in He. destruct He as [b [<- _]]. discriminate.
Qed.

(* the writer is stopped after ANY number of effects: the store file holds the old or the new assignment, whole *)
Theorem crash_atomic (s : fs) v_old v_new n :
  f_store s = Some (enc v_old) ->
  let s' := crash_after enc n s v_new in
  ((n < length (save_effects enc v_new))%nat -> load dec s' = LoadOk v_old /\ f_store s' = f_store s) /\
  ((length (save_effects enc v_new) <= n)%nat -> load dec s' = LoadOk v_new).
Proof.
  intros Hs. cbn zeta. unfold crash_after. split.
  - intros Hn. rewrite (store_unchanged_by_prefix s _ (firstn_no_rename v_new n Hn)) .
    unfold load. rewrite store_unchanged_by_prefix by (apply firstn_no_rename; assumption).
    rewrite Hs, dec_enc. auto.
  - intros Hn. rewrite firstn_all2 by assumption. apply resume_after_save.
Qed.

Corollary crash_old_or_new (s : fs) v_old v_new n :
  f_store s = Some (enc v_old) ->
  load dec (crash_after enc n s v_new) = LoadOk v_old \/ load dec (crash_after enc n s v_new) = LoadOk v_new.
Proof.
  intros Hs. destruct (crash_atomic s v_old v_new n Hs) as [H1 H2]. cbn zeta in *.
  destruct (Nat.lt_ge_cases n (length (save_effects enc v_new))); [left; now apply H1 | right; now apply H2].
Qed.

(* whatever is left of an interrupted save (a partial temporary file) does not disturb the next save *)
Theorem next_save_after_crash (s : fs) v n v' :
  load dec (run_effects (crash_after enc n s v) (save_effects enc v')) = LoadOk v'.
Proof. apply resume_after_save. Qed.

(* first start ever: no store file *)
Theorem load_no_store (s : fs) : f_store s = None -> load dec s = LoadEmpty.
Proof. unfold load. now intros ->. Qed.
End P.

(* ---- a closed form of crash_after, used by the executable correspondence (linear instead of quadratic) ---- *)
Section Fast.
Context {B V : Type}.
Variable enc : V -> list B.
Definition crash_fast (n : nat) (s : fs B) (v : V) : fs B :=
  match n with
  | O => s
  | S m =>
    let bytes := enc v in
    if Nat.leb m (length bytes)
    then {| f_store := f_store s; f_tmp := Some (firstn m bytes) |}
    else {| f_store := Some bytes; f_tmp := None |}
  end.

Lemma firstn_map {X Y} (f : X -> Y) n l : firstn n (map f l) = map f (firstn n l).
Proof. revert l. induction n as [|n IH]; intros [|x l]; cbn; auto. now rewrite IH. Qed.

Lemma crash_fast_eq n (s : fs B) v : crash_after enc n s v = crash_fast n s v.
Proof.
  unfold crash_after, crash_fast. destruct n as [|m]; [reflexivity|].
  unfold save_effects. cbn [firstn]. destruct (Nat.leb_spec m (length (enc v))) as [Hle|Hgt].
  - rewrite firstn_app. rewrite map_length. replace (m - length (enc v))%nat with 0%nat by lia.
    cbn [firstn]. rewrite app_nil_r, firstn_map.
    unfold run_effects. cbn [fold_left].
    change (fold_left apply_effect (map AppendTmp (firstn m (enc v))) (apply_effect s TruncTmp))
      with (run_effects (apply_effect s TruncTmp) (map AppendTmp (firstn m (enc v)))).
    rewrite run_appends. cbn [apply_effect f_store f_tmp]. destruct (firstn m (enc v)); reflexivity.
  - rewrite firstn_all2 by (rewrite app_length, map_length; cbn; lia).
    change (TruncTmp :: map AppendTmp (enc v) ++ [RenameTmp]) with (save_effects enc v).
    apply complete_save.
Qed.
End Fast.

Lemma crash_model_eq n s v : crash_model n s v = crash_after enc_id n s v.
Proof. rewrite crash_fast_eq. reflexivity. Qed.
