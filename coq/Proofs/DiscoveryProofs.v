(* Proofs/DiscoveryProofs.v — C17: the discovered target sets follow updates and reloads.
   The specification `latest` is a backward scan of the history, independent of the state machine in
   Model/Discovery.v; the theorems hold for every translation function `tr`. *)
From KV Require Import Base.Util Base.AMap Model.Explore Model.Discovery.
Local Open Scope list_scope.

Section DiscProofs.
Context {G T : Type}.
Variable tr : N -> G -> list T * list T.

(* the entry of job j in one update message (a Go map: one entry per job; with a repeated key the last one counts) *)
Fixpoint last_entry (j : N) (m : list (N * G)) : option G :=
  match m with
  | [] => None
  | (k, g) :: r => match last_entry j r with Some g' => Some g' | None => if N.eqb j k then Some g else None end
  end.

Definition cfg_of (jobs : list (N * N)) : amap N := fold_left (fun c jv => aset (fst jv) (snd jv) c) jobs [].

(* histories below are listed most recent operation first *)
Fixpoint cfg_after (rops : list (d_op G)) : amap N :=
  match rops with
  | [] => []
  | DReload jobs :: _ => cfg_of jobs
  | DUpdate _ :: r => cfg_after r
  end.

(* what job j must show: the translation (under the configuration in force at that moment) of its entry in the
   latest update that mentions it, provided no reload since has dropped the job *)
Fixpoint latest (j : N) (rops : list (d_op G)) : option (list T * list T) :=
  match rops with
  | [] => None
  | DReload jobs :: r => if amem j (cfg_of jobs) then latest j r else None
  | DUpdate m :: r =>
    match last_entry j m, afind j (cfg_after r) with
    | Some g, Some ver => Some (tr ver g)
    | _, _ => latest j r
    end
  end.

(* ---- one update ---- *)
Definition acc_act (a : amap (list T) * amap (list T) * amap (list T)) := fst (fst a).
Definition acc_drp (a : amap (list T) * amap (list T) * amap (list T)) := snd (fst a).
Definition acc_msg (a : amap (list T) * amap (list T) * amap (list T)) := snd a.

Lemma upd_job_unfold cfg acc jg :
  upd_job tr cfg acc jg =
  match afind (fst jg) cfg with
  | None => acc
  | Some ver => (aset (fst jg) (fst (tr ver (snd jg))) (acc_act acc),
                 aset (fst jg) (snd (tr ver (snd jg))) (acc_drp acc),
                 aset (fst jg) (fst (tr ver (snd jg))) (acc_msg acc))
  end.
Proof.
  unfold upd_job, acc_act, acc_drp, acc_msg. destruct acc as [[a d] m]. simpl.
  destruct (afind (fst jg) cfg); [|reflexivity]. destruct (tr n (snd jg)); reflexivity.
Qed.

Lemma upd_job_other cfg acc k g j :
  afind j cfg = None \/ j <> k ->
  afind j (acc_act (upd_job tr cfg acc (k, g))) = afind j (acc_act acc) /\
  afind j (acc_drp (upd_job tr cfg acc (k, g))) = afind j (acc_drp acc) /\
  afind j (acc_msg (upd_job tr cfg acc (k, g))) = afind j (acc_msg acc).
Proof.
  intros H. rewrite upd_job_unfold. cbn [fst snd].
  destruct (afind k cfg) as [ver|] eqn:E; [|auto].
  assert (Hne : k <> j). { destruct H as [H|H]; congruence. }
  unfold acc_act, acc_drp, acc_msg; cbn [fst snd]. rewrite !afind_aset_neq by assumption. auto.
Qed.

Lemma fold_upd cfg j m : forall acc,
  let r := fold_left (upd_job tr cfg) m acc in
  match last_entry j m, afind j cfg with
  | Some g, Some ver =>
      afind j (acc_act r) = Some (fst (tr ver g)) /\ afind j (acc_drp r) = Some (snd (tr ver g)) /\
      afind j (acc_msg r) = Some (fst (tr ver g))
  | _, _ => afind j (acc_act r) = afind j (acc_act acc) /\ afind j (acc_drp r) = afind j (acc_drp acc) /\
            afind j (acc_msg r) = afind j (acc_msg acc)
  end.
Proof.
  induction m as [|[k g] rest IH]; intros acc; cbn [fold_left last_entry].
  - cbn. destruct (afind j cfg); auto.
  - specialize (IH (upd_job tr cfg acc (k, g))). cbv zeta in IH. cbv zeta.
    set (r := fold_left (upd_job tr cfg) rest (upd_job tr cfg acc (k, g))) in *.
    destruct (afind j cfg) as [ver|] eqn:Ecfg.
    + destruct (last_entry j rest) as [g'|]; [exact IH|].
      destruct IH as (Ha & Hd & Hm). rewrite Ha, Hd, Hm.
      destruct (N.eqb_spec j k) as [->|Hne].
      * rewrite upd_job_unfold. cbn [fst snd]. rewrite Ecfg.
        unfold acc_act, acc_drp, acc_msg; cbn [fst snd]. rewrite !afind_aset_eq. auto.
      * apply upd_job_other. auto.
    + assert (Hr : afind j (acc_act r) = afind j (acc_act (upd_job tr cfg acc (k, g))) /\
                   afind j (acc_drp r) = afind j (acc_drp (upd_job tr cfg acc (k, g))) /\
                   afind j (acc_msg r) = afind j (acc_msg (upd_job tr cfg acc (k, g)))).
      { destruct (last_entry j rest); exact IH. }
      destruct Hr as (Ha & Hd & Hm). rewrite Ha, Hd, Hm.
      assert (Ho := upd_job_other cfg acc k g j (or_introl Ecfg)).
      destruct (last_entry j rest); [exact Ho|]. destruct (N.eqb j k); exact Ho.
Qed.

Lemma d_update_fields s m :
  let r := fold_left (upd_job tr (d_cfg s)) m (d_active s, d_dropped s, []) in
  d_update tr s m = {| d_cfg := d_cfg s; d_active := acc_act r; d_dropped := acc_drp r; d_sent := d_sent s ++ [acc_msg r] |}.
Proof.
  unfold d_update. cbv zeta. destruct (fold_left _ m _) as [[a d] mm]. reflexivity.
Qed.

(* ---- one reload ---- *)
Lemma keys_cfg_fold (jobs : list (N * N)) : forall (c : amap N) j,
  In j (akeys (fold_left (fun c jv => aset (fst jv) (snd jv) c) jobs c)) <-> In j (akeys c) \/ In j (map fst jobs).
Proof.
  induction jobs as [|jv r IH]; intros c j; cbn [fold_left map].
  - simpl. tauto.
  - rewrite IH, In_akeys_aset. simpl. intuition congruence.
Qed.

Lemma amem_cfg_of jobs j : amem j (cfg_of jobs) = true <-> In j (map fst jobs).
Proof. unfold cfg_of. rewrite amem_keys, keys_cfg_fold. simpl. tauto. Qed.

Lemma afind_keep (act m : amap (list T)) jobs j :
  afind j (flat_map (fun jv : N * N => match afind (fst jv) act, afind (fst jv) m with
                                       | Some _, Some v => [(fst jv, v)]
                                       | Some _, None => [(fst jv, [])]
                                       | None, _ => []
                                       end) jobs) =
  if amem j (cfg_of jobs) then
    match afind j act with Some _ => Some (match afind j m with Some v => v | None => [] end) | None => None end
  else None.
Proof.
  destruct (amem j (cfg_of jobs)) eqn:Hmem.
  - apply amem_cfg_of in Hmem. induction jobs as [|jv r IH]; [contradiction|].
    cbn [flat_map map fst] in *.
    destruct (N.eq_dec (fst jv) j) as [->|Hne].
    + destruct (afind j act); [|destruct (in_dec N.eq_dec j (map fst r)) as [Hin|Hn]].
      * destruct (afind j m); simpl; now rewrite N.eqb_refl.
      * simpl. auto.
      * simpl. clear IH Hmem. induction r as [|jw r IHr]; [reflexivity|].
        simpl in Hn. cbn [flat_map]. destruct (N.eq_dec (fst jw) j) as [e|ne]; [tauto|].
        assert (Hr : ~ In j (map fst r)) by tauto.
        destruct (afind (fst jw) act); [destruct (afind (fst jw) m)|]; simpl;
          try (destruct (N.eqb_spec j (fst jw)); [congruence|]); auto.
    + destruct Hmem as [e|Hin]; [congruence|]. specialize (IH Hin).
      destruct (afind (fst jv) act); [destruct (afind (fst jv) m)|]; simpl;
        try (destruct (N.eqb_spec j (fst jv)); [congruence|]); auto.
  - assert (Hn : ~ In j (map fst jobs)).
    { intros H. apply amem_cfg_of in H. congruence. }
    clear Hmem. induction jobs as [|jw r IHr]; [reflexivity|].
    simpl in Hn. cbn [flat_map]. destruct (N.eq_dec (fst jw) j) as [e|ne]; [tauto|].
    assert (Hr : ~ In j (map fst r)) by tauto.
    destruct (afind (fst jw) act); [destruct (afind (fst jw) m)|]; simpl;
      try (destruct (N.eqb_spec j (fst jw)); [congruence|]); auto.
Qed.

(* ---- histories ---- *)
Lemma d_run_snoc s ops op : d_run tr s (ops ++ [op]) = d_step tr (d_run tr s ops) op.
Proof. unfold d_run. now rewrite fold_left_app. Qed.

Theorem follows_latest ops j :
  let s := d_run tr d_init ops in
  d_cfg s = cfg_after (rev ops) /\
  afind j (d_active s) = option_map fst (latest j (rev ops)) /\
  afind j (d_dropped s) = option_map snd (latest j (rev ops)).
Proof.
  induction ops as [|op ops IH] using rev_ind; cbv zeta.
  - simpl. auto.
  - rewrite d_run_snoc, rev_unit. cbv zeta in IH. destruct IH as (Hc & Ha & Hd).
    set (s := d_run tr d_init ops) in *. destruct op as [m|jobs]; cbn [d_step cfg_after latest].
    + rewrite d_update_fields. cbn [d_cfg d_active d_dropped].
      pose proof (fold_upd (d_cfg s) j m (d_active s, d_dropped s, [])) as H. cbv zeta in H.
      rewrite <- Hc.
      destruct (last_entry j m) as [g|]; [destruct (afind j (d_cfg s)) as [ver|]|].
      * destruct H as (H1 & H2 & _). rewrite H1, H2. auto.
      * destruct H as (H1 & H2 & _). rewrite H1, H2. auto.
      * destruct H as (H1 & H2 & _). rewrite H1, H2. auto.
    + unfold d_reload. cbn [d_cfg d_active d_dropped]. split; [reflexivity|].
      rewrite !afind_keep. fold (cfg_of jobs).
      destruct (amem j (cfg_of jobs)); [|auto].
      rewrite Ha, Hd. destruct (latest j (rev ops)) as [[a d]|]; simpl; auto.
Qed.

(* active and dropped always list the same jobs *)
Corollary same_jobs ops j :
  let s := d_run tr d_init ops in amem j (d_active s) = amem j (d_dropped s).
Proof.
  cbv zeta. destruct (follows_latest ops j) as (_ & Ha & Hd). unfold amem. rewrite Ha, Hd.
  destruct (latest j (rev ops)); reflexivity.
Qed.

(* only configured jobs are listed *)
Lemma latest_configured j rops : latest j rops <> None -> amem j (cfg_after rops) = true.
Proof.
  induction rops as [|[m|jobs] r IH]; cbn [latest cfg_after]; [congruence| |].
  - destruct (last_entry j m); [destruct (afind j (cfg_after r)) eqn:E|]; auto.
    intros _. unfold amem. now rewrite E.
  - destruct (amem j (cfg_of jobs)); congruence.
Qed.

Corollary only_configured ops j :
  let s := d_run tr d_init ops in amem j (d_active s) = true -> amem j (d_cfg s) = true.
Proof.
  cbv zeta. destruct (follows_latest ops j) as (Hc & Ha & _). unfold amem at 1. rewrite Ha, Hc.
  intros H. apply latest_configured. destruct (latest j (rev ops)); [congruence|discriminate].
Qed.

(* a reload is one atomic step: kept jobs keep exactly what they had, removed jobs are gone *)
Theorem reload_no_gap ops jobs j :
  let s := d_run tr d_init ops in
  let s' := d_reload s jobs in
  (In j (map fst jobs) -> afind j (d_active s') = afind j (d_active s) /\ afind j (d_dropped s') = afind j (d_dropped s)) /\
  (~ In j (map fst jobs) -> afind j (d_active s') = None /\ afind j (d_dropped s') = None).
Proof.
  cbv zeta. set (s := d_run tr d_init ops). unfold d_reload. cbn [d_active d_dropped].
  rewrite !afind_keep. fold (cfg_of jobs). split; intros H.
  - apply amem_cfg_of in H. rewrite H.
    pose proof (same_jobs ops j) as Hs. cbv zeta in Hs. fold s in Hs. unfold amem in Hs.
    destruct (afind j (d_active s)), (afind j (d_dropped s)); try discriminate; auto.
  - destruct (amem j (cfg_of jobs)) eqn:E; [apply amem_cfg_of in E; contradiction | auto].
Qed.

(* an update leaves every job it does not mention (or that is not configured) untouched *)
Theorem update_others_untouched s m j :
  last_entry j m = None \/ afind j (d_cfg s) = None ->
  afind j (d_active (d_update tr s m)) = afind j (d_active s) /\
  afind j (d_dropped (d_update tr s m)) = afind j (d_dropped s).
Proof.
  intros H. rewrite d_update_fields. cbn [d_active d_dropped].
  pose proof (fold_upd (d_cfg s) j m (d_active s, d_dropped s, [])) as F. cbv zeta in F.
  destruct H as [H|H]; rewrite H in F.
  - tauto.
  - destruct (last_entry j m); tauto.
Qed.

(* the message handed to the explorer carries, for every configured job of the update, its new active list *)
Theorem message_content s m j :
  afind j (last (d_sent (d_update tr s m)) []) =
  match last_entry j m, afind j (d_cfg s) with
  | Some g, Some ver => Some (fst (tr ver g))
  | _, _ => None
  end.
Proof.
  rewrite d_update_fields. cbn [d_sent]. rewrite last_last.
  pose proof (fold_upd (d_cfg s) j m (d_active s, d_dropped s, [])) as F. cbv zeta in F.
  destruct (last_entry j m); [destruct (afind j (d_cfg s))|]; tauto.
Qed.

(* WaitInit's condition *)
Theorem init_done_iff ops :
  let s := d_run tr d_init ops in
  d_init_done s = true <-> forall j, In j (akeys (d_cfg s)) -> latest j (rev ops) <> None.
Proof.
  cbv zeta. unfold d_init_done. rewrite forallb_forall. split.
  - intros H j Hj. unfold akeys in Hj. apply in_map_iff in Hj. destruct Hj as [[j' v] [<- Hin]].
    specialize (H _ Hin). cbn [fst] in *. destruct (follows_latest ops j') as (_ & Ha & _).
    unfold amem in H. rewrite Ha in H. destruct (latest j' (rev ops)); [congruence|discriminate].
  - intros H [j v] Hin. cbn [fst]. assert (Hj : In j (akeys (d_cfg (d_run tr d_init ops)))).
    { unfold akeys. apply in_map_iff. exists (j, v). auto. }
    specialize (H j Hj). destruct (follows_latest ops j) as (_ & Ha & _).
    unfold amem. rewrite Ha. destruct (latest j (rev ops)); [reflexivity|congruence].
Qed.
End DiscProofs.

(* ---- the explorer's table (Model/Explore.v) fed with these messages ---- *)
Lemma update_visit_table old acc jh :
  x_table (update_visit old acc jh) = aset (snd jh) (match afind (snd jh) old with Some id => id | None => x_next acc end) (x_table acc).
Proof. unfold update_visit. destruct jh as [job h]. cbn [snd]. destruct (afind h old); reflexivity. Qed.

Lemma fold_visit_keys old pairs : forall acc h,
  In h (akeys (x_table (fold_left (update_visit old) pairs acc))) <-> In h (akeys (x_table acc)) \/ In h (map snd pairs).
Proof.
  induction pairs as [|jh r IH]; intros acc h; cbn [fold_left map].
  - simpl. tauto.
  - rewrite IH, update_visit_table, In_akeys_aset. simpl. intuition congruence.
Qed.

(* after UpdateTargets the explorer tracks exactly the targets of that message *)
Theorem explorer_tracks_message x msg h :
  In h (akeys (x_table (do_update x msg))) <-> exists j l, In (j, l) msg /\ In h l.
Proof.
  unfold do_update. rewrite fold_visit_keys. cbn [x_table akeys map].
  rewrite in_map_iff. split.
  - intros [[]|[[j h'] [<- Hin]]]. apply in_flat_map in Hin. destruct Hin as [[j' l] [Hm Hl]].
    apply in_map_iff in Hl. destruct Hl as [h'' [[= <- <-] Hl]]. cbn [snd]. eauto.
  - intros [j [l [Hm Hl]]]. right. exists (j, h). split; [reflexivity|].
    apply in_flat_map. exists (j, l). split; [assumption|]. apply in_map_iff. eauto.
Qed.

(* a reload prunes exactly the entries whose job is gone; nothing else changes *)
Theorem explorer_reload_prunes x jobs h id :
  NoDup (akeys (x_table x)) ->
  (afind h (x_table (do_apply x jobs)) = Some id <->
   afind h (x_table x) = Some id /\ In (e_job (obj x id)) jobs).
Proof.
  intros Hnd. unfold do_apply. cbn [x_table]. split.
  - intros H. apply afind_filter_nodup_inv in H; [|assumption]. destruct H as [H1 H2]. split; [assumption|].
    cbn [snd] in H2. apply existsb_exists in H2. destruct H2 as [j [Hj He]]. apply N.eqb_eq in He. now subst.
  - intros [H1 H2]. apply afind_filter_nodup; [assumption|assumption|]. cbn [snd].
    apply existsb_exists. exists (e_job (obj x id)). split; [assumption|apply N.eqb_refl].
Qed.
