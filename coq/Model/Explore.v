(* Model/Explore.v — pkg/explore/explore.go as a labelled transition system whose steps are the critical
   sections and channel operations: Get, UpdateTargets, ApplyConfig, the workers taking entries from the
   needExplore channel, exploreOnce finishing, the retry timer firing.
   Entries have an identity (the Go code queues OBJECTS while it tests membership by HASH).
   Workers are eager: a free worker takes the head of the queue at once (that is what the running
   goroutines do); the schedule is the order in which the harness completes probes and lets timers fire. *)
From KV Require Import Base.Util Base.AMap Model.Coordinator.
Local Open Scope list_scope.
Local Open Scope Z_scope.

Record entry := {
  e_hash : N; e_job : N;
  e_exploring : bool;                      (* the one-shot trigger *)
  e_health : health; e_series : Z; e_total : Z; e_err : bool;   (* rt: what Get returns *)
  e_window : list Z;
}.
Definition new_entry (h job : N) : entry :=
  {| e_hash := h; e_job := job; e_exploring := false; e_health := Unknown; e_series := 0; e_total := 0; e_err := false; e_window := [] |}.

Record xstate := {
  x_table : amap N;            (* hash -> id of the tracked object *)
  x_objs : amap entry;         (* id -> object (objects outlive their table entry while queued / probed / waiting) *)
  x_queue : list N;            (* needExplore channel: ids, FIFO *)
  x_inflight : list N;         (* ids being probed right now, oldest first (at most x_workers) *)
  x_timers : list N;           (* ids whose retry timer is pending *)
  x_next : N;                  (* next fresh id *)
  x_workers : nat;
  x_probes : list N;           (* log: hash of every probe started, oldest first *)
  x_info : list N;             (* jobs the scrape manager has a client for (scrape.Manager.GetJob <> nil) *)
}.
Definition x_init (workers : nat) : xstate :=
  {| x_table := []; x_objs := []; x_queue := []; x_inflight := []; x_timers := []; x_next := 1; x_workers := workers; x_probes := [];
     x_info := [0; 1; 2]%N |}.

Definition obj (s : xstate) (id : N) : entry := match afind id (x_objs s) with Some e => e | None => new_entry 0 0 end.
Definition set_obj (s : xstate) (id : N) (e : entry) : xstate :=
  {| x_table := x_table s; x_objs := aset id e (x_objs s); x_queue := x_queue s; x_inflight := x_inflight s;
     x_timers := x_timers s; x_next := x_next s; x_workers := x_workers s; x_probes := x_probes s; x_info := x_info s |}.

(* free workers take queued entries (eagerly, FIFO) *)
Fixpoint dispatch (fuel : nat) (s : xstate) : xstate :=
  match fuel with
  | O => s
  | S f =>
    match x_queue s with
    | [] => s
    | id :: rest =>
      if Nat.ltb (length (x_inflight s)) (x_workers s)
      then
        (* the worker probes what it took from the queue only if that object is still the tracked one *)
        if match afind (e_hash (obj s id)) (x_table s) with Some id' => N.eqb id' id | None => false end
        then
          if existsb (N.eqb (e_job (obj s id))) (x_info s)
          then dispatch f {| x_table := x_table s; x_objs := x_objs s; x_queue := rest; x_inflight := x_inflight s ++ [id];
                             x_timers := x_timers s; x_next := x_next s; x_workers := x_workers s;
                             x_probes := x_probes s ++ [e_hash (obj s id)]; x_info := x_info s |}
          else
            (* exploreOnce: no scrape info for the job - the attempt fails at once (nothing is sent to the target), it
               is recorded as a failed probe and the retry timer is armed *)
            let e := obj s id in
            dispatch f {| x_table := x_table s;
                          x_objs := aset id {| e_hash := e_hash e; e_job := e_job e; e_exploring := e_exploring e; e_health := Bad;
                                               e_series := e_series e; e_total := e_total e; e_err := true; e_window := e_window e |} (x_objs s);
                          x_queue := rest; x_inflight := x_inflight s; x_timers := x_timers s ++ [id];
                          x_next := x_next s; x_workers := x_workers s; x_probes := x_probes s; x_info := x_info s |}
        else dispatch f {| x_table := x_table s; x_objs := x_objs s; x_queue := rest; x_inflight := x_inflight s;
                           x_timers := x_timers s; x_next := x_next s; x_workers := x_workers s; x_probes := x_probes s; x_info := x_info s |}
      else s
    end
  end.
Definition settle (s : xstate) : xstate := dispatch (S (length (x_queue s))) s.

Inductive probe_result := POk (scraped total : Z) | PFail.
Inductive x_op :=
| XGet (h : N)
| XUpdate (jobs : list (N * list N))       (* job -> hashes of its targets *)
| XApplyConfig (jobs : list N)             (* the jobs of the new configuration *)
| XDone (h : N) (r : probe_result)         (* the oldest in-flight probe of hash h finishes *)
| XTimers                                  (* every pending retry timer fires (oldest first) *)
| XJobInfo (jobs : list N).                (* scrape.Manager.ApplyConfig: the jobs it has a client for from now on *)

(* Get *)
Definition do_get (s : xstate) (h : N) : xstate :=
  match afind h (x_table s) with
  | None => s
  | Some id =>
    let e := obj s id in
    if e_exploring e then s
    else
      let s1 := set_obj s id {| e_hash := e_hash e; e_job := e_job e; e_exploring := true; e_health := e_health e;
                                e_series := e_series e; e_total := e_total e; e_err := e_err e; e_window := e_window e |} in
      {| x_table := x_table s1; x_objs := x_objs s1; x_queue := x_queue s1 ++ [id]; x_inflight := x_inflight s1;
         x_timers := x_timers s1; x_next := x_next s1; x_workers := x_workers s1; x_probes := x_probes s1; x_info := x_info s1 |}
  end.
(* what Get returns: None = nil *)
Definition get_view (s : xstate) (h : N) : option (health * Z * Z * bool) :=
  match afind h (x_table s) with
  | None => None
  | Some id => let e := obj s id in Some (e_health e, e_series e, e_total e, e_err e)
  end.

(* UpdateTargets: the table is rebuilt from the message; known hashes keep their object *)
Definition update_visit (old : amap N) (acc : xstate) (jh : N * N) : xstate :=
  let (job, h) := jh in
  match afind h old with
  | Some id => {| x_table := aset h id (x_table acc); x_objs := x_objs acc; x_queue := x_queue acc; x_inflight := x_inflight acc;
                  x_timers := x_timers acc; x_next := x_next acc; x_workers := x_workers acc; x_probes := x_probes acc; x_info := x_info acc |}
  | None =>
    let id := x_next acc in
    {| x_table := aset h id (x_table acc); x_objs := aset id (new_entry h job) (x_objs acc); x_queue := x_queue acc;
       x_inflight := x_inflight acc; x_timers := x_timers acc; x_next := x_next acc + 1; x_workers := x_workers acc;
       x_probes := x_probes acc; x_info := x_info acc |}
  end.
Definition do_update (s : xstate) (jobs : list (N * list N)) : xstate :=
  let pairs := flat_map (fun jl => map (fun h => (fst jl, h)) (snd jl)) jobs in
  fold_left (update_visit (x_table s)) pairs
            {| x_table := []; x_objs := x_objs s; x_queue := x_queue s; x_inflight := x_inflight s; x_timers := x_timers s;
               x_next := x_next s; x_workers := x_workers s; x_probes := x_probes s; x_info := x_info s |}.

(* ApplyConfig: entries of removed jobs leave the table *)
Definition do_apply (s : xstate) (jobs : list N) : xstate :=
  {| x_table := filter (fun hi => existsb (N.eqb (e_job (obj s (snd hi)))) jobs) (x_table s);
     x_objs := x_objs s; x_queue := x_queue s; x_inflight := x_inflight s; x_timers := x_timers s;
     x_next := x_next s; x_workers := x_workers s; x_probes := x_probes s; x_info := x_info s |}.

Fixpoint remove_first (id : N) (l : list N) : list N :=
  match l with [] => [] | x :: r => if N.eqb x id then r else x :: remove_first id r end.

(* exploreOnce finishing for object id *)
Definition push3 (w : list Z) (x : Z) : list Z := if Nat.ltb (length w) 3 then w ++ [x] else tl w ++ [x].
Definition finish_probe (s : xstate) (id : N) (r : probe_result) : xstate :=
  let e := obj s id in
  let e' := match r with
            | POk scraped total =>
              let w := push3 (e_window e) scraped in
              {| e_hash := e_hash e; e_job := e_job e; e_exploring := e_exploring e; e_health := Good;
                 e_series := Base.Float64.div_round (fold_left Z.add w 0) (Z.of_nat (length w)); e_total := total;
                 e_err := false; e_window := w |}
            | PFail =>
              {| e_hash := e_hash e; e_job := e_job e; e_exploring := e_exploring e; e_health := Bad;
                 e_series := e_series e; e_total := e_total e; e_err := true; e_window := e_window e |}
            end in
  let s1 := set_obj s id e' in
  {| x_table := x_table s1; x_objs := x_objs s1; x_queue := x_queue s1; x_inflight := remove_first id (x_inflight s1);
     x_timers := match r with PFail => x_timers s1 ++ [id] | POk _ _ => x_timers s1 end;
     x_next := x_next s1; x_workers := x_workers s1; x_probes := x_probes s1; x_info := x_info s1 |}.

Definition do_done (s : xstate) (h : N) (r : probe_result) : xstate :=
  match find (fun id => N.eqb (e_hash (obj s id)) h) (x_inflight s) with
  | None => s
  | Some id => finish_probe s id r
  end.

(* the retry closure: re-queue the object iff it is still the tracked one *)
Definition fire (s : xstate) (id : N) : xstate :=
  if negb (existsb (N.eqb id) (x_timers s)) then s else
  let tracked := match afind (e_hash (obj s id)) (x_table s) with Some id' => N.eqb id' id | None => false end in
  {| x_table := x_table s; x_objs := x_objs s; x_queue := if tracked then x_queue s ++ [id] else x_queue s;
     x_inflight := x_inflight s; x_timers := remove_first id (x_timers s);
     x_next := x_next s; x_workers := x_workers s; x_probes := x_probes s; x_info := x_info s |}.
Definition do_timers (s : xstate) : xstate := fold_left fire (x_timers s) s.

Definition x_step (s : xstate) (op : x_op) : xstate :=
  settle (match op with
          | XGet h => do_get s h
          | XUpdate jobs => do_update s jobs
          | XApplyConfig jobs => do_apply s jobs
          | XDone h r => do_done s h r
          | XTimers => do_timers s
          | XJobInfo jobs => {| x_table := x_table s; x_objs := x_objs s; x_queue := x_queue s; x_inflight := x_inflight s;
                                x_timers := x_timers s; x_next := x_next s; x_workers := x_workers s; x_probes := x_probes s;
                                x_info := jobs |}
          end).
Definition x_run (s : xstate) (ops : list x_op) : xstate := fold_left x_step ops s.

(* ---- observation ---- *)
Definition inflight_hashes (s : xstate) : list N := map (fun id => e_hash (obj s id)) (x_inflight s).
