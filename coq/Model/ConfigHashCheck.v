(* Model/ConfigHashCheck.v — verdict functions of the `cfghash` engine (they need the generated type graph). *)
From KV Require Import Base.Util Model.ConfigHash Gen.ConfigTypes.
Local Open Scope list_scope.

(* does the struct traversal reach the setting named by these field names? (every alternative that has the path) *)
Definition struct_visible (p : list string) : bool :=
  match vis_names 80 config_ty p with
  | [] => false
  | l => forallb (fun b => b) l
  end.

(* model vs implementation: the hashes of two texts are equal exactly when their documents agree once external
   labels are blanked; the struct-only hash differs exactly when the edited setting is reached by the traversal *)
Definition cfghash_agree (c : ch_case) : bool :=
  ch_same_as_fresh c &&       (* the model's hash is a function of the document: no reload history can matter *)
  Bool.eqb (ydoc_eqb (blank_ext (ch_doc1 c)) (blank_ext (ch_doc2 c))) (ch_hash_equal c) &&
  match ch_path c with
  | [] => true
  | p => Bool.eqb (struct_visible p) (negb (ch_struct_equal c))
  end.

(* C16 on the implementation: formatting and external labels never change the hash, any other setting does *)
Definition c16_case (c : ch_case) : bool :=
  ch_same_as_fresh c &&
  match ch_kind c with
  | EFormat | EExternal => ch_hash_equal c
  | ESetting => negb (ch_hash_equal c)
  end.
