(* Model/Coordinator.v — executable model of one coordination cycle of one replica:
   pkg/coordinator/coordinator.go runOnce (body of the per-replica loop) and everything it calls
   in pkg/coordinator/rebalance.go, plus the caching/needUpdate logic of pkg/shard/shard.go.
   Go's unspecified choices (map iteration order, weightedrand.Pick) are taken from an explicit
   schedule (Base/Sched.v); theorems quantify over all schedules.
   Constants come from Gen/Consts.v, which is regenerated from /repo's source on every run. *)
From KV Require Import Base.Util Base.AMap Base.Sched Base.Float64 Gen.Consts.
Local Open Scope list_scope.
Local Open Scope Z_scope.

(* ------------------------------------------------------------------ data *)
Inductive tstate := Normal | InTransfer.
Inductive health := Good | Bad | Unknown.
Definition tstate_eqb (a b : tstate) : bool :=
  match a, b with Normal, Normal | InTransfer, InTransfer => true | _, _ => false end.
Definition health_eqb (a b : health) : bool :=
  match a, b with Good, Good | Bad, Bad | Unknown, Unknown => true | _, _ => false end.

(* target.ScrapeStatus, the fields the coordinator reads *)
Record cstat := { c_state : tstate; c_health : health; c_series : Z; c_total : Z; c_times : N }.
Definition set_state (c : cstat) (s : tstate) : cstat :=
  {| c_state := s; c_health := c_health c; c_series := c_series c; c_total := c_total c; c_times := c_times c |}.
(* target.NewScrapeStatus(0, 0) *)
Definition fresh_status : cstat := {| c_state := Normal; c_health := Unknown; c_series := 0; c_total := 0; c_times := 0 |}.

(* shard.RuntimeInfo; the config hash is abstracted to "equals the coordinator's";
   IdleStartAt is abstracted to the idle age  now - IdleStartAt *)
Record runtime := { r_head : Z; r_proc : Z; r_hash_ok : bool; r_idle : option Z }.
Definition zero_runtime : runtime := {| r_head := 0; r_proc := 0; r_hash_ok := false; r_idle := None |}.

(* what one shard answers during the cycle (scripted replies) *)
Record shard_in := {
  sh_ready : bool;
  sh_status : option (amap cstat);   (* GET targets/status : None = request fails *)
  sh_rt1 : option runtime;           (* first GET runtimeinfo *)
  sh_push_ok : bool;                 (* POST status/config succeeds *)
  sh_rt2 : option runtime;           (* GET runtimeinfo after a config push *)
  sh_post_ok : bool;                 (* POST shard/targets succeeds *)
}.

Record opts := { max_head : Z; max_proc : Z; max_shard : Z; min_shard : Z; max_idle : Z; disable_alleviate : bool }.

Record input := {
  i_shards : list shard_in;
  i_active : list (N * N);           (* discovered targets: hash -> job *)
  i_explore : amap cstat;            (* explorer results (getExploreResult) *)
  i_scale1_ok : bool;                (* early ChangeScale succeeds *)
}.

Inductive req := GetStatus | GetRuntime | PostConfig | PostTargets | PostExtra.
Definition req_eqb (a b : req) : bool :=
  match a, b with
  | GetStatus, GetStatus | GetRuntime, GetRuntime | PostConfig, PostConfig
  | PostTargets, PostTargets | PostExtra, PostExtra => true
  | _, _ => false
  end.

(* per-shard planning state: rebalance.go shardInfo *)
Record sinfo := {
  si_ok : bool;                      (* changeAble *)
  si_scr : option (amap cstat);      (* scraping; None = Go nil map *)
  si_head : Z; si_proc : Z;          (* runtime.HeadSeries / ProcessSeries (running loads) *)
  si_idle : option Z;                (* idle age when IdleStartAt != nil *)
}.
Definition plan := list sinfo.

Inductive ev_kind := First | ReliefHead | ReliefProc | ScaleDown.
Record event := {
  ev_kind_of : ev_kind; ev_hash : N; ev_from : option nat; ev_to : nat;
  ev_series : Z; ev_total : Z; ev_head_before : Z; ev_proc_before : Z;
  ev_times : N;                      (* scrape count of the copy that is placed / moved *)
}.

(* a posted target: hash, job, state, series *)
Record ptarget := { pt_hash : N; pt_job : N; pt_state : tstate; pt_series : Z }.

Record output := {
  o_logs : list (list req);              (* per shard: ordered request log *)
  o_posts : list (option (list ptarget));(* per shard: body of POST shard/targets, if one was sent *)
  o_scales : list Z;                     (* every ChangeScale argument, in order *)
  o_events : list event;                 (* placements, in order *)
  o_plan : plan;                         (* final plan (for statements) *)
  o_infos : plan;                        (* plan right after getShardInfos (for statements) *)
  o_skipped : bool;                      (* replica skipped after a failing early ChangeScale *)
  o_divzero : bool;                      (* integer division by zero in tryScaleUp (a Go panic) *)
}.

(* ------------------------------------------------------------------ helpers *)
Definition scr_of (s : sinfo) : amap cstat := match si_scr s with Some m => m | None => [] end.
Definition set_scr (s : sinfo) (m : amap cstat) : sinfo :=
  {| si_ok := si_ok s; si_scr := Some m; si_head := si_head s; si_proc := si_proc s; si_idle := si_idle s |}.
Definition add_load (s : sinfo) (dh dp : Z) : sinfo :=
  {| si_ok := si_ok s; si_scr := si_scr s; si_head := si_head s + dh; si_proc := si_proc s + dp; si_idle := si_idle s |}.

Fixpoint upd {A} (k : nat) (f : A -> A) (l : list A) : list A :=
  match l, k with
  | [], _ => []
  | x :: t, O => f x :: t
  | x :: t, S j => x :: upd j f t
  end.
Definition nth_si (p : plan) (k : nat) : sinfo :=
  nth k p {| si_ok := false; si_scr := None; si_head := 0; si_proc := 0; si_idle := None |}.
Definition indices {A} (l : list A) : list nat := seq 0 (length l).
Definition is_active (active : list (N * N)) (h : N) : bool := amem h active.

(* seriesWithRate *)
Definition series_with_rate (s : Z) (rate : Z * Z) : Z := mul_const s rate.

(* ------------------------------------------------------------------ getOneShardInfo *)
Definition mk_info (ok : bool) (scr : option (amap cstat)) (r : runtime) : sinfo :=
  {| si_ok := ok; si_scr := scr; si_head := r_head r; si_proc := r_proc r; si_idle := r_idle r |}.

Definition get_info (sh : shard_in) : sinfo * list req :=
  if negb (sh_ready sh) then (mk_info false None zero_runtime, [])
  else match sh_status sh with
  | None => (mk_info false (Some []) zero_runtime, [GetStatus])
  | Some st =>
    match sh_rt1 sh with
    | None => (mk_info false (Some st) zero_runtime, [GetStatus; GetRuntime])
    | Some r1 =>
      if r_hash_ok r1 then (mk_info true (Some st) r1, [GetStatus; GetRuntime])
      else if negb (sh_push_ok sh) then (mk_info false (Some st) r1, [GetStatus; GetRuntime; PostConfig])
      else match sh_rt2 sh with
      | None => (mk_info false (Some st) zero_runtime, [GetStatus; GetRuntime; PostConfig; GetRuntime])
      | Some r2 => (mk_info (r_hash_ok r2) (Some st) r2, [GetStatus; GetRuntime; PostConfig; GetRuntime])
      end
    end
  end.

(* the shard's cached copy of its last report (shard.go TargetStatus "must copy"), used by needUpdate *)
Definition cache_of (sh : shard_in) : amap cstat :=
  if sh_ready sh then match sh_status sh with Some st => st | None => [] end else [].

(* ------------------------------------------------------------------ globalScrapeStatus *)
Fixpoint first_known (p : plan) (h : N) : option cstat :=
  match p with
  | [] => None
  | s :: t => match afind h (scr_of s) with
              | Some c => if health_eqb (c_health c) Unknown then first_known t h else Some c
              | None => first_known t h
              end
  end.
Definition global_status (explore : amap cstat) (p : plan) (h : N) : cstat :=
  match first_known p h with
  | Some c => c
  | None => match afind h explore with Some c => c | None => fresh_status end
  end.

(* ------------------------------------------------------------------ gcTargets *)
Definition load_of (o : opts) (s : sinfo) : Z := if max_head o =? 0 then si_proc s else si_head s.

(* does shard `other` justify deleting copy `tar` of h held by shard s ? (gcTargets). `front`: other comes before s
   in the list of in-sync shards - with equal loads the copy of the front shard is kept *)
Definition gc_justifies (o : opts) (front : bool) (s other : sinfo) (h : N) (tar : cstat) : bool :=
  match afind h (scr_of other) with
  | Some st =>
    (min_wait <=? c_times st)%N &&
    ((tstate_eqb (c_state tar) InTransfer && tstate_eqb (c_state st) Normal) ||
     (tstate_eqb (c_state tar) (c_state st) &&
      ((load_of o other <? load_of o s) || ((load_of o other =? load_of o s) && front))))
  | None => false
  end.

(* keep copy (h,tar) of shard number k ? *)
Definition gc_keep (o : opts) (active : list (N * N)) (p : plan) (k : nat) (h : N) (tar : cstat) : bool :=
  if negb (is_active active h) then false
  else if (c_times tar <? min_wait)%N then true
  else negb (existsb (fun j => negb (Nat.eqb j k) && si_ok (nth_si p j) &&
                               gc_justifies o (Nat.ltb j k) (nth_si p k) (nth_si p j) h tar) (indices p)).

Definition gc_shard (o : opts) (active : list (N * N)) (p : plan) (k : nat) : plan :=
  let s := nth_si p k in
  if si_ok s
  then upd k (fun s => set_scr s (filter (fun kv => gc_keep o active p k (fst kv) (snd kv)) (scr_of s))) p
  else p.
Definition gc (o : opts) (active : list (N * N)) (p : plan) : plan :=
  fold_left (gc_shard o active) (indices p) p.

(* ------------------------------------------------------------------ recoverOrphanTransfers *)
(* a copy marked in_transfer that no other in-sync shard holds goes back to normal *)
Definition orphan (p : plan) (k : nat) (h : N) : bool :=
  negb (existsb (fun j => negb (Nat.eqb j k) && si_ok (nth_si p j) && amem h (scr_of (nth_si p j))) (indices p)).
Definition recover_shard (p : plan) (k : nat) (s : sinfo) : sinfo :=
  if si_ok s
  then set_scr s (map (fun kv => if tstate_eqb (c_state (snd kv)) InTransfer && orphan p k (fst kv)
                                 then (fst kv, set_state (snd kv) Normal) else kv) (scr_of s))
  else s.
Fixpoint recover_from (p : plan) (k : nat) (l : list sinfo) : list sinfo :=
  match l with [] => [] | s :: r => recover_shard p k s :: recover_from p (S k) r end.
Definition recover (p : plan) : plan := recover_from p 0 p.

(* ------------------------------------------------------------------ transferTarget *)
Definition transfer (p : plan) (from to : nat) (h : N) : plan :=
  match afind h (scr_of (nth_si p from)) with
  | None => p
  | Some tar =>
    let p1 := upd to (fun s => set_scr (add_load s (c_series tar) (c_total tar)) (aset h tar (scr_of s))) p in
    upd from (fun s => set_scr s (aset h (set_state tar InTransfer) (scr_of s))) p1
  end.

Definition mk_event (kind : ev_kind) (p : plan) (from : option nat) (to : nat) (h : N) (c : cstat) : event :=
  {| ev_kind_of := kind; ev_hash := h; ev_from := from; ev_to := to; ev_series := c_series c; ev_total := c_total c;
     ev_head_before := si_head (nth_si p to); ev_proc_before := si_proc (nth_si p to); ev_times := c_times c |}.

(* ------------------------------------------------------------------ alleviateShards *)
Definition counted (c : cstat) : bool :=
  tstate_eqb (c_state c) Normal && health_eqb (c_health c) Good && (min_wait <=? c_times c)%N.
Definition total_head (s : sinfo) : Z := fold_left (fun a kv => if counted (snd kv) then a + c_series (snd kv) else a) (scr_of s) 0.
Definition total_proc (s : sinfo) : Z := fold_left (fun a kv => if counted (snd kv) then a + c_total (snd kv) else a) (scr_of s) 0.

(* rebalance.go:332-333 *)
Definition site_head_relief (o : opts) (os : sinfo) (tar : cstat) : bool :=
  (si_head os + c_series tar <? max_head o) && (si_proc os + c_total tar <? max_proc o).
(* rebalance.go:377-378 *)
Definition site_proc_relief (o : opts) (os : sinfo) (tar : cstat) : bool :=
  ((max_head o =? 0) || (si_head os + c_series tar <? max_head o)) && (si_proc os + c_total tar <? max_proc o).

Definition first_dest (site : sinfo -> bool) (p : plan) (k : nat) : option nat :=
  find (fun j => negb (Nat.eqb j k) && si_ok (nth_si p j) && site (nth_si p j)) (indices p).

Record relief_state := { rs_plan : plan; rs_total : Z; rs_events : list event; rs_abort : bool }.

(* one iteration of `for hash, tar := range s.scraping` in alleviateShardHeadSeries *)
Definition relief_head_step (o : opts) (k : nat) (exp : Z) (st : relief_state) (h : N) : relief_state :=
  if rs_abort st || (rs_total st <=? exp) then st
  else match afind h (scr_of (nth_si (rs_plan st) k)) with
  | None => st
  | Some tar =>
    if negb (counted tar) then st
    else if max_head o <? c_series tar
    then {| rs_plan := rs_plan st; rs_total := rs_total st; rs_events := rs_events st; rs_abort := true |}
    else match first_dest (fun os => site_head_relief o os tar) (rs_plan st) k with
    | None => st
    | Some j =>
      {| rs_plan := transfer (rs_plan st) k j h; rs_total := rs_total st - c_series tar;
         rs_events := rs_events st ++ [mk_event ReliefHead (rs_plan st) (Some k) j h tar];
         rs_abort := false |}
    end
  end.

Definition relief_proc_step (o : opts) (k : nat) (exp : Z) (st : relief_state) (h : N) : relief_state :=
  if rs_abort st || (rs_total st <=? exp) then st
  else match afind h (scr_of (nth_si (rs_plan st) k)) with
  | None => st
  | Some tar =>
    if (c_total tar =? 0) || negb (counted tar) then st
    else if max_proc o <? c_total tar
    then {| rs_plan := rs_plan st; rs_total := rs_total st; rs_events := rs_events st; rs_abort := true |}
    else match first_dest (fun os => site_proc_relief o os tar) (rs_plan st) k with
    | None => st
    | Some j =>
      {| rs_plan := transfer (rs_plan st) k j h; rs_total := rs_total st - c_total tar;
         rs_events := rs_events st ++ [mk_event ReliefProc (rs_plan st) (Some k) j h tar];
         rs_abort := false |}
    end
  end.

(* alleviateShardHeadSeries / alleviateShardProcessSeries: returns plan, needed space, events *)
Definition relief_shard (step : relief_state -> N -> relief_state) (total0 exp : Z)
           (p : plan) (k : nat) (s : sst) : (plan * Z * list event) * sst :=
  if total0 <=? exp then ((p, 0, []), s)
  else
    let (keys, s1) := order (akeys (scr_of (nth_si p k))) s in
    let st := fold_left step keys {| rs_plan := p; rs_total := total0; rs_events := []; rs_abort := false |} in
    let need := if rs_abort st then 0 else if exp <? rs_total st then rs_total st - exp else 0 in
    ((rs_plan st, need, rs_events st), s1).

Record pass_state := { ps_plan : plan; ps_need : Z; ps_events : list event; ps_sst : sst }.

Definition proc_pass_step (o : opts) (st : pass_state) (k : nat) : pass_state :=
  let s := nth_si (ps_plan st) k in
  if si_ok s && (series_with_rate (max_proc o) proc_trigger_rate <=? si_proc s)
  then
    let exp := series_with_rate (max_proc o) proc_expect_rate in
    let '((p', need, evs), s') := relief_shard (relief_proc_step o k exp) (total_proc s) exp (ps_plan st) k (ps_sst st) in
    {| ps_plan := p'; ps_need := ps_need st + need; ps_events := ps_events st ++ evs; ps_sst := s' |}
  else st.

Definition head_threshold (o : opts) (head : Z) : option Z :=
  match find (fun row => series_with_rate (max_head o) (fst row) <=? head) head_thresholds with
  | Some row => Some (series_with_rate (max_head o) (snd row))
  | None => None
  end.

Definition head_pass_step (o : opts) (st : pass_state) (k : nat) : pass_state :=
  let s := nth_si (ps_plan st) k in
  if si_ok s then
    match head_threshold o (si_head s) with
    | Some exp =>
      let '((p', need, evs), s') := relief_shard (relief_head_step o k exp) (total_head s) exp (ps_plan st) k (ps_sst st) in
      {| ps_plan := p'; ps_need := ps_need st + need; ps_events := ps_events st ++ evs; ps_sst := s' |}
    | None => st
    end
  else st.

(* returns plan, (head need, proc need), events *)
Definition alleviate (o : opts) (p : plan) (s : sst) : (plan * (Z * Z) * list event) * sst :=
  if disable_alleviate o then ((p, (0, 0), []), s)
  else
    let st1 := fold_left (proc_pass_step o) (indices p) {| ps_plan := p; ps_need := 0; ps_events := []; ps_sst := s |} in
    if max_head o =? 0 then ((ps_plan st1, (0, ps_need st1), ps_events st1), ps_sst st1)
    else
      let st2 := fold_left (head_pass_step o) (indices p)
                           {| ps_plan := ps_plan st1; ps_need := 0; ps_events := ps_events st1; ps_sst := ps_sst st1 |} in
      ((ps_plan st2, (ps_need st2, ps_need st1), ps_events st2), ps_sst st2).

(* ------------------------------------------------------------------ getFreeShard / assignNoScrapingTargets *)
(* rebalance.go:473-474 *)
Definition site_free_shard (o : opts) (s : sinfo) (series total : Z) : bool :=
  ((max_head o =? 0) || (si_head s + series <? max_head o)) && (si_proc s + total <? max_proc o).

(* candidates among the first `limit` shards *)
Definition free_candidates (o : opts) (p : plan) (limit : nat) (series total : Z) : list nat :=
  filter (fun j => si_ok (nth_si p j) && site_free_shard o (nth_si p j) series total) (seq 0 limit).

Definition get_free_shard (o : opts) (p : plan) (limit : nat) (series total : Z) (s : sst) : option nat * sst :=
  let cands := free_candidates o p limit series total in
  match cands with
  | [] => (None, s)
  | j0 :: _ =>
    if max_idle o =? 0
    then let (i, s') := choose (length cands) s in (Some (nth i cands j0), s')
    else (Some j0, s)
  end.

(* rebalance.go:461-464 *)
Definition is_too_big (o : opts) (c : cstat) : bool :=
  (negb (max_head o =? 0) && (max_head o <? c_series c)) || (max_proc o <? c_series c) || (max_proc o <? c_total c).

Record assign_state := { as_plan : plan; as_need : Z * Z; as_events : list event; as_sst : sst }.

Definition assign_step (o : opts) (scraped : N -> bool) (gstatus : N -> cstat) (st : assign_state) (h : N) : assign_state :=
  if scraped h then st
  else
    let status := gstatus h in
    if negb (health_eqb (c_health status) Good) then st
    else if is_too_big o status then st
    else
      let p := as_plan st in
      let (dest, s') := get_free_shard o p (length p) (c_series status) (c_total status) (as_sst st) in
      match dest with
      | Some j =>
        {| as_plan := upd j (fun s => set_scr (add_load s (c_series status) (c_total status)) (aset h status (scr_of s))) p;
           as_need := as_need st;
           as_events := as_events st ++ [mk_event First p None j h status];
           as_sst := s' |}
      | None =>
        {| as_plan := p; as_need := (fst (as_need st) + c_series status, snd (as_need st) + c_total status);
           as_events := as_events st; as_sst := s' |}
      end.

Definition assign (o : opts) (active : list (N * N)) (gstatus : N -> cstat) (p : plan) (s : sst)
  : (plan * (Z * Z) * list event) * sst :=
  let scraped := fun h => existsb (fun si => amem h (scr_of si)) p in
  let (keys, s1) := order (akeys active) s in
  let st := fold_left (assign_step o scraped gstatus) keys {| as_plan := p; as_need := (0, 0); as_events := []; as_sst := s1 |} in
  ((as_plan st, as_need st, as_events st), as_sst st).

(* ------------------------------------------------------------------ tryScaleUp *)
Definition try_scale_up (o : opts) (p : plan) (need : Z * Z) : Z :=
  let nok := Z.of_nat (length (filter si_ok p)) in
  let up0 := Z.quot (snd need) (max_proc o) + 1 in
  let up := if negb (max_head o =? 0) && (up0 <? Z.quot (fst need) (max_head o) + 1)
            then Z.quot (fst need) (max_head o) + 1 else up0 in
  Z.max (nok + up) (Z.of_nat (length p)).

(* ------------------------------------------------------------------ tryScaleDown *)
Definition removable (o : opts) (s : sinfo) : bool :=
  si_ok s && match scr_of s with [] => true | _ => false end &&
  match si_idle s with Some age => max_idle o <? age | None => false end.

(* first loop: returns the number of shards kept (= index of the stopping shard + 1) *)
Fixpoint tail_removable (o : opts) (rev_p : list sinfo) : nat :=
  match rev_p with
  | [] => 0
  | s :: t => if removable o s then tail_removable o t else length rev_p
  end.

(* shardCanBeIdle: first-fit simulation over the remaining room of the lower in-sync shards *)
Fixpoint first_fit (o : opts) (spaces : list (Z * Z)) (tar : cstat) : option (list (Z * Z)) :=
  match spaces with
  | [] => None
  | (hs, ps) :: t =>
    if ((max_head o =? 0) || (c_series tar <? hs)) && (c_total tar <? ps)
    then Some ((hs - c_series tar, ps - c_total tar) :: t)
    else match first_fit o t tar with Some t' => Some ((hs, ps) :: t') | None => None end
  end.

Fixpoint can_pack (o : opts) (spaces : list (Z * Z)) (tars : list cstat) : bool :=
  match tars with
  | [] => true
  | tar :: rest =>
    if negb (tstate_eqb (c_state tar) Normal) || (c_times tar <? min_wait)%N then false
    else match first_fit o spaces tar with
         | Some sp' => can_pack o sp' rest
         | None => false
         end
  end.

Definition can_be_idle (o : opts) (p : plan) (k : nat) (s : sst) : bool * sst :=
  let src := nth_si p k in
  if negb (si_ok src) then (false, s)
  else
    let spaces := map (fun si => (max_head o - si_head si, max_proc o - si_proc si)) (filter si_ok (firstn k p)) in
    let (vals, s1) := order (map snd (scr_of src)) s in
    (can_pack o spaces vals, s1).

Record idle_state := { is_plan : plan; is_events : list event; is_failed : bool; is_sst : sst }.

Definition become_idle_step (o : opts) (k : nat) (st : idle_state) (h : N) : idle_state :=
  if is_failed st then st
  else match afind h (scr_of (nth_si (is_plan st) k)) with
  | None => st
  | Some tar =>
    if negb (tstate_eqb (c_state tar) Normal) || (c_times tar <? min_wait)%N then st
    else
      let (dest, s') := get_free_shard o (is_plan st) k (c_series tar) (c_total tar) (is_sst st) in
      match dest with
      | None => {| is_plan := is_plan st; is_events := is_events st; is_failed := true; is_sst := s' |}
      | Some j =>
        {| is_plan := transfer (is_plan st) k j h;
           is_events := is_events st ++ [mk_event ScaleDown (is_plan st) (Some k) j h tar];
           is_failed := false; is_sst := s' |}
      end
  end.

Definition become_idle (o : opts) (p : plan) (k : nat) (s : sst) : (plan * list event * bool) * sst :=
  let (keys, s1) := order (akeys (scr_of (nth_si p k))) s in
  let st := fold_left (become_idle_step o k) keys {| is_plan := p; is_events := []; is_failed := false; is_sst := s1 |} in
  ((is_plan st, is_events st, negb (is_failed st)), is_sst st).

(* second loop: i runs from `i` down to 1 *)
Fixpoint scale_down_moves (o : opts) (i : nat) (p : plan) (evs : list event) (s : sst) : (plan * list event) * sst :=
  match i with
  | O => ((p, evs), s)
  | S i' =>
    let from := nth_si p i in
    match si_idle from with
    | Some _ => scale_down_moves o i' p evs s
    | None =>
      let (can, s1) := can_be_idle o p i s in
      if negb can then ((p, evs), s1)
      else
        let '((p', evs', ok), s2) := become_idle o p i s1 in
        if ok then scale_down_moves o i' p' (evs ++ evs') s2 else ((p', evs ++ evs'), s2)
    end
  end.

Definition try_scale_down (o : opts) (p : plan) (s : sst) : (Z * plan * list event) * sst :=
  let kept := tail_removable o (rev p) in       (* shards[kept-1] is where the first loop stopped *)
  let '((p', evs), s') := scale_down_moves o (pred kept) p [] s in
  ((Z.of_nat kept, p', evs), s').

(* ------------------------------------------------------------------ updateScrapingTargets / apply *)
Definition new_targets (active : list (N * N)) (s : sinfo) : list ptarget :=
  flat_map (fun kv => match afind (fst kv) active with
                      | Some job => [{| pt_hash := fst kv; pt_job := job; pt_state := c_state (snd kv); pt_series := c_series (snd kv) |}]
                      | None => []
                      end) (scr_of s).

(* shard.go needUpdate *)
Definition need_update (targets : list ptarget) (cache : amap cstat) : bool :=
  negb (Nat.eqb (length targets) (length cache)) || Nat.eqb (length targets) 0 ||
  existsb (fun t => match afind (pt_hash t) cache with
                    | Some c => negb (tstate_eqb (c_state c) (pt_state t))
                    | None => true
                    end) targets.

Definition apply_shard (active : list (N * N)) (sh : shard_in) (s : sinfo) : option (list ptarget) * list req :=
  if negb (si_ok s) then (None, [])
  else
    let ts := new_targets active s in
    if need_update ts (cache_of sh)
    then if sh_post_ok sh then (Some ts, [PostTargets; PostExtra]) else (Some ts, [PostTargets])
    else (None, [PostExtra]).

(* ------------------------------------------------------------------ the cycle *)
Definition clamp (o : opts) (scale : Z) : Z :=
  let s1 := if max_shard o <? scale then max_shard o else scale in
  if s1 <? min_shard o then min_shard o else s1.

(* the planning part of the cycle, with every intermediate plan kept (the theorems talk about them) *)
Record stages := {
  st_p0 : plan;            (* after getShardInfos *)
  st_p1 : plan;            (* after gcTargets and recoverOrphanTransfers *)
  st_p2 : plan;            (* after alleviateShards *)
  st_p3 : plan;            (* after assignNoScrapingTargets *)
  st_p4 : plan;            (* after tryScaleDown (= st_p3 otherwise) *)
  st_need : Z * Z;         (* needed space: head, process *)
  st_ev_a : list event; st_ev_b : list event; st_ev_c : list event;
  st_scale : Z;            (* before clamping *)
  st_s2 : sst; st_s3 : sst;
}.

Definition run_stages (o : opts) (i : input) (s0 : sst) : stages :=
  let p0 := map (fun sh => fst (get_info sh)) (i_shards i) in
  let gstatus := global_status (i_explore i) p0 in
  let p1 := recover (gc o (i_active i) p0) in
  let ra := alleviate o p1 s0 in
  let p2 := fst (fst (fst ra)) in
  let need_a := snd (fst (fst ra)) in
  let ev_a := snd (fst ra) in
  let rb := assign o (i_active i) gstatus p2 (snd ra) in
  let p3 := fst (fst (fst rb)) in
  let need_b := snd (fst (fst rb)) in
  let ev_b := snd (fst rb) in
  let s2 := snd rb in
  let need := (fst need_a + fst need_b, snd need_a + snd need_b) in
  let need_zero := (fst need =? 0) && (snd need =? 0) in
  let rc := if negb need_zero then ((try_scale_up o p3 need, p3, []), s2)
            else if negb (max_idle o =? 0) then try_scale_down o p3 s2
            else ((Z.of_nat (length p3), p3, []), s2) in
  {| st_p0 := p0; st_p1 := p1; st_p2 := p2; st_p3 := p3; st_p4 := snd (fst (fst rc));
     st_need := need; st_ev_a := ev_a; st_ev_b := ev_b; st_ev_c := snd (fst rc);
     st_scale := fst (fst (fst rc)); st_s2 := s2; st_s3 := snd rc |}.

Definition cycle_sst (o : opts) (i : input) (s0 : sst) : output * sst :=
  let logs0 := map (fun sh => snd (get_info sh)) (i_shards i) in
  let p0 := map (fun sh => fst (get_info sh)) (i_shards i) in
  let too_few := Z.of_nat (length p0) <? min_shard o in
  let early := if too_few then [min_shard o] else [] in
  if too_few && negb (i_scale1_ok i)
  then ({| o_logs := logs0; o_posts := map (fun _ => None) p0; o_scales := early; o_events := [];
           o_plan := p0; o_infos := p0; o_skipped := true; o_divzero := false |}, s0)
  else
    let S := run_stages o i s0 in
    let need_zero := (fst (st_need S) =? 0) && (snd (st_need S) =? 0) in
    if negb need_zero && (max_proc o =? 0)
    then ({| o_logs := logs0; o_posts := map (fun _ => None) p0; o_scales := early; o_events := st_ev_a S ++ st_ev_b S;
             o_plan := st_p3 S; o_infos := p0; o_skipped := false; o_divzero := true |}, st_s2 S)
    else
      let applied := map (fun pr => apply_shard (i_active i) (fst pr) (snd pr)) (combine (i_shards i) (st_p4 S)) in
      ({| o_logs := map (fun pr => fst pr ++ snd (snd pr)) (combine logs0 applied);
          o_posts := map fst applied;
          o_scales := early ++ [clamp o (st_scale S)];
          o_events := st_ev_a S ++ st_ev_b S ++ st_ev_c S;
          o_plan := st_p4 S; o_infos := p0; o_skipped := false; o_divzero := false |}, st_s3 S).

Definition cycle (o : opts) (i : input) (sch : list nat) : output := fst (cycle_sst o i (sst_of sch)).
Definition cycle_traced (o : opts) (i : input) (sch : list nat) : output * list nat :=
  let (out, s) := cycle_sst o i (sst_of sch) in (out, s_trace s).
