(* Model/Discovery.v — pkg/discovery/discovery.go: ApplyConfig, translateTargets (the translation of one job's
   groups under that job's configuration is a parameter `tr`: its content is C02/C15's business), the readers,
   the WaitInit condition, and the messages sent to the explorer. *)
From KV Require Import Base.Util Base.AMap Model.Explore.
Local Open Scope list_scope.

Section Disc.
Context {G : Type}.                          (* the groups of one job as the discovery manager delivers them *)
Context {T : Type}.                          (* a translated target *)
Variable tr : N -> G -> list T * list T.     (* config version of the job -> groups -> (active, dropped) *)

Record dstate := {
  d_cfg : amap N;                            (* configured jobs: job -> version of its scrape config *)
  d_active : amap (list T);
  d_dropped : amap (list T);
  d_sent : list (amap (list T));             (* messages put on ActiveTargetsChan, oldest first *)
}.
Definition d_init : dstate := {| d_cfg := []; d_active := []; d_dropped := []; d_sent := [] |}.

(* translateTargets + Run: one discovery update (a map job -> groups) *)
Definition upd_job (cfg : amap N) (acc : amap (list T) * amap (list T) * amap (list T)) (jg : N * G) :=
  let '(act, drp, msg) := acc in
  match afind (fst jg) cfg with
  | None => acc                                         (* unknown job: skipped *)
  | Some ver => let (a, d) := tr ver (snd jg) in (aset (fst jg) a act, aset (fst jg) d drp, aset (fst jg) a msg)
  end.
Definition d_update (s : dstate) (m : list (N * G)) : dstate :=
  let '(act, drp, msg) := fold_left (upd_job (d_cfg s)) m (d_active s, d_dropped s, []) in
  {| d_cfg := d_cfg s; d_active := act; d_dropped := drp; d_sent := d_sent s ++ [msg] |}.

(* ApplyConfig: jobs of the new configuration keep what they have; everything else goes *)
Definition d_reload (s : dstate) (jobs : list (N * N)) : dstate :=
  let keep (m : amap (list T)) := flat_map (fun jv => match afind (fst jv) (d_active s), afind (fst jv) m with
                                                     | Some _, Some v => [(fst jv, v)]
                                                     | Some _, None => [(fst jv, [])]
                                                     | None, _ => []
                                                     end) jobs in
  {| d_cfg := fold_left (fun c jv => aset (fst jv) (snd jv) c) jobs [];
     d_active := keep (d_active s); d_dropped := keep (d_dropped s); d_sent := d_sent s |}.

Inductive d_op := DUpdate (m : list (N * G)) | DReload (jobs : list (N * N)).
Definition d_step (s : dstate) (op : d_op) : dstate :=
  match op with DUpdate m => d_update s m | DReload jobs => d_reload s jobs end.
Definition d_run (s : dstate) (ops : list d_op) : dstate := fold_left d_step ops s.

(* WaitInit returns (before its time-out) iff every configured job has had its first update *)
Definition d_init_done (s : dstate) : bool := forallb (fun jv => amem (fst jv) (d_active s)) (d_cfg s).
End Disc.
Arguments dstate : clear implicits.
Arguments d_op : clear implicits.

(* ---- the translation used by the `discovery` correspondence engine ----
   a group is a list of (address id, marked-for-drop); version 0 keeps everything, version 1 drops the marked ones.
   Inside a group active targets are de-duplicated by hash (equal address = equal hash), and all dropped targets of
   a group share one hash, so only the first is listed (translate.go). *)
Fixpoint dedup_from (seen : list N) (l : list N) : list N :=
  match l with
  | [] => []
  | x :: r => if existsb (N.eqb x) seen then dedup_from seen r else x :: dedup_from (x :: seen) r
  end.
Definition demo_group := list (N * bool).
(* the "drop" mark is a label of the target, so under version 0 (nothing dropped) two entries with the same address
   are one target only if their marks agree as well: the identity is the pair, coded 2*addr + mark *)
Definition tcode (t : N * bool) : N := (2 * fst t + (if snd t then 1 else 0))%N.
Definition tr_demo (ver : N) (groups : list demo_group) : list N * list N :=
  let one (g : demo_group) :=
    if (ver =? 0)%N then (map (fun c => N.div2 c) (dedup_from [] (map tcode g)), [])
    else (dedup_from [] (map fst (filter (fun t => negb (snd t)) g)), firstn 1 (map fst (filter snd g))) in
  (flat_map (fun g => fst (one g)) groups, flat_map (fun g => snd (one g)) groups).

(* ---- case format of the `discovery` engine ---- *)
Record d_obs := {
  do_active : list (N * list N);      (* ActiveTargets(): per job (sorted by job) the address ids in order *)
  do_dropped : list (N * list N);     (* DropTargets() *)
  do_by_hash : list N;                (* ActiveTargetsByHash(): address ids, sorted, without repetition *)
  do_init_done : option bool;         (* WaitInit returns before its time-out (measured at the end of a history only) *)
  do_explorer : list N;               (* address ids the explorer tracks, sorted *)
}.
Record d_case := { dc_ops : list (d_op (list demo_group)); dc_seen : list d_obs }.

Fixpoint insert_job (x : N * list N) (l : list (N * list N)) : list (N * list N) :=
  match l with [] => [x] | y :: r => if (fst x <=? fst y)%N then x :: l else y :: insert_job x r end.
Definition sort_jobs (m : list (N * list N)) : list (N * list N) := fold_right insert_job [] m.
Fixpoint insert_nn (x : N) (l : list N) : list N :=
  match l with [] => [x] | y :: r => if (x =? y)%N then l else if (x <? y)%N then x :: l else y :: insert_nn x r end.
Definition sort_set (l : list N) : list N := fold_right insert_nn [] l.

(* the explorer (Model/Explore.v) is fed every message (UpdateTargets) and every reload (ApplyConfig),
   as cmd/kvass/coordinator.go wires it *)
Definition feed_explorer (x : xstate) (s' : dstate N) (op : d_op (list demo_group)) : xstate :=
  match op with
  | DUpdate _ => Explore.do_update x (last (d_sent s') [])
  | DReload jobs => Explore.do_apply x (map fst jobs)
  end.
Definition d_obs_of (s : dstate N) (x : xstate) : d_obs :=
  {| do_active := sort_jobs (d_active s); do_dropped := sort_jobs (d_dropped s);
     do_by_hash := sort_set (flat_map snd (d_active s));
     do_init_done := Some (d_init_done s);
     do_explorer := sort_set (akeys (x_table x)) |}.

Definition jl_eqb (a b : N * list N) : bool := N.eqb (fst a) (fst b) && list_eqb N.eqb (snd a) (snd b).
Definition d_obs_eqb (a b : d_obs) : bool :=
  list_eqb jl_eqb (do_active a) (do_active b) && list_eqb jl_eqb (do_dropped a) (do_dropped b) &&
  list_eqb N.eqb (do_by_hash a) (do_by_hash b) &&
  match do_init_done b with Some x => option_eqb Bool.eqb (do_init_done a) (Some x) | None => true end &&
  list_eqb N.eqb (do_explorer a) (do_explorer b).

Fixpoint d_trace (s : dstate N) (x : xstate) (ops : list (d_op (list demo_group))) : list d_obs :=
  match ops with
  | [] => []
  | op :: r => let s' := d_step tr_demo s op in let x' := feed_explorer x s' op in d_obs_of s' x' :: d_trace s' x' r
  end.
Definition discovery_agree (c : d_case) : bool := list_eqb d_obs_eqb (d_trace d_init (x_init 0) (dc_ops c)) (dc_seen c).

(* ---- C17 on the implementation's observations: one-step specification, independent of the fold above ---- *)
Definition lookup_jobs (j : N) (m : list (N * list N)) : option (list N) := afind j m.
Fixpoint c17_walk (cfg : amap N) (prev : d_obs) (ops : list (d_op (list demo_group))) (seen : list d_obs) : bool :=
  match ops, seen with
  | [], _ => true
  | op :: ops', cur :: seen' =>
    match op with
    | DUpdate m =>
      (* every configured job in the message shows exactly the translation of its latest groups; others untouched *)
      forallb (fun jg => match afind (fst jg) cfg with
                         | Some ver => let (a, d) := tr_demo ver (snd jg) in
                                       (* a later entry for the same job in one message wins *)
                                       existsb (fun jg2 => N.eqb (fst jg2) (fst jg) &&
                                                           let (a2, d2) := tr_demo ver (snd jg2) in
                                                           option_eqb (list_eqb N.eqb) (lookup_jobs (fst jg) (do_active cur)) (Some a2) &&
                                                           option_eqb (list_eqb N.eqb) (lookup_jobs (fst jg) (do_dropped cur)) (Some d2)) m
                         | None => option_eqb (list_eqb N.eqb) (lookup_jobs (fst jg) (do_active cur)) None
                         end) m &&
      forallb (fun jl => existsb (fun jg => N.eqb (fst jg) (fst jl)) m ||
                         option_eqb (list_eqb N.eqb) (lookup_jobs (fst jl) (do_active cur)) (Some (snd jl))) (do_active prev) &&
      forallb (fun jl => amem (fst jl) cfg) (do_active cur) &&
      (* the explorer tracks exactly the targets of this (the latest) update *)
      list_eqb N.eqb (do_explorer cur)
        (sort_set (flat_map (fun jg => match lookup_jobs (fst jg) (do_active cur) with Some l => l | None => [] end) m)) &&
      c17_walk cfg cur ops' seen'
    | DReload jobs =>
      let cfg' := fold_left (fun c jv => aset (fst jv) (snd jv) c) jobs [] in
      (* kept jobs keep their targets, removed jobs are gone at once, nothing else appears *)
      forallb (fun jl => if amem (fst jl) cfg' then option_eqb (list_eqb N.eqb) (lookup_jobs (fst jl) (do_active cur)) (Some (snd jl))
                         else option_eqb (list_eqb N.eqb) (lookup_jobs (fst jl) (do_active cur)) None) (do_active prev) &&
      forallb (fun jl => amem (fst jl) (do_active prev)) (do_active cur) &&
      forallb (fun jl => if amem (fst jl) cfg' then option_eqb (list_eqb N.eqb) (lookup_jobs (fst jl) (do_dropped cur)) (Some (snd jl)) else true) (do_dropped prev) &&
      (* a reload only ever removes entries from the explorer *)
      forallb (fun a => existsb (N.eqb a) (do_explorer prev)) (do_explorer cur) &&
      c17_walk cfg' cur ops' seen'
    end &&
    (* the by-hash view is the union of the active lists; init-done iff every configured job has an entry *)
    list_eqb N.eqb (do_by_hash cur) (sort_set (flat_map snd (do_active cur)))
  | _ :: _, [] => false
  end.
Definition c17_case (c : d_case) : bool :=
  c17_walk [] {| do_active := []; do_dropped := []; do_by_hash := []; do_init_done := None; do_explorer := [] |} (dc_ops c) (dc_seen c).
