(* Model/World.v — the closed loop: N sidecars (Model/Sidecar.v) + the coordinator's cycle (Model/Coordinator.v) +
   scrapes + a StatefulSet that follows the last scale request + faults at the boundaries (a target update that does
   not arrive, a shard that is unreachable / not ready / refuses the configuration for one cycle, a sidecar restart).
   The `loop` engine runs the real coordinator against real sidecars; the model is run in lock step: a cycle step takes
   the POST bodies and scale requests the implementation produced (checked to be one of the model's outcomes for the
   model's own pre-state) so that the schedule never has to be guessed. *)
From KV Require Import Base.Util Base.AMap Base.Sched Model.Coordinator Model.CoordCheck Model.Sidecar.
Local Open Scope list_scope.
Local Open Scope Z_scope.

Record truth := { tr_job : N; tr_series : Z; tr_total : Z; tr_healthy : bool }.   (* what a scrape / a probe of the target yields *)
Record wshard := { ws_sc : sidecar; ws_hash_ok : bool }.
Record world := { w_shards : list wshard; w_active : list N; w_now : Z }.

Record faults := { f_post_lost : list nat; f_unreachable : list nat; f_not_ready : list nat; f_stale : list nat }.
Definition no_faults : faults := {| f_post_lost := []; f_unreachable := []; f_not_ready := []; f_stale := [] |}.
Definition hit (l : list nat) (k : nat) : bool := existsb (Nat.eqb k) l.

Inductive lstep :=
| LCycle (f : faults)
| LScrapeAll (times : nat)
| LTick (dt : Z)
| LRestart (k : nat)
| LSetActive (hs : list N).

Section World.
Variable o : opts.
Variable tru : amap truth.

Definition truth_of (h : N) : truth :=
  match afind h tru with Some t => t | None => {| tr_job := 0; tr_series := 0; tr_total := 0; tr_healthy := false |} end.

(* ---- what the coordinator is told ---- *)
Definition cstat_of (s : sstat) : cstat :=
  {| c_state := ss_state s; c_health := ss_health s; c_series := ss_series s; c_total := ss_total s; c_times := ss_times s |}.
Definition runtime_of (w : world) (s : wshard) (ok : bool) : runtime :=
  {| r_head := rt_head 0 (ws_sc s); r_proc := rt_proc (ws_sc s); r_hash_ok := ok;
     r_idle := match sc_idle (ws_sc s) with Some t => Some (w_now w - t) | None => None end |}.
Definition shard_input (w : world) (f : faults) (k : nat) (s : wshard) : shard_in :=
  let reach := negb (hit (f_unreachable f) k) in
  let stale := hit (f_stale f) k in
  {| sh_ready := negb (hit (f_not_ready f) k);
     sh_status := if reach then Some (map (fun kv => (fst kv, cstat_of (snd kv))) (sc_status (ws_sc s))) else None;
     sh_rt1 := if reach then Some (runtime_of w s (ws_hash_ok s)) else None;
     sh_push_ok := reach && negb stale;
     sh_rt2 := if reach then Some (runtime_of w s true) else None;
     sh_post_ok := reach && negb (hit (f_post_lost f) k) |}.
Definition explore_of (w : world) : amap cstat :=
  map (fun h => let t := truth_of h in
                (h, if tr_healthy t
                    then {| c_state := Normal; c_health := Good; c_series := tr_series t; c_total := tr_total t; c_times := 0 |}
                    else {| c_state := Normal; c_health := Bad; c_series := 0; c_total := 0; c_times := 0 |})) (w_active w).
Fixpoint number_from {A} (k : nat) (l : list A) : list (nat * A) :=
  match l with [] => [] | x :: r => (k, x) :: number_from (S k) r end.
Definition cycle_input (w : world) (f : faults) : input :=
  {| i_shards := map (fun ks => shard_input w f (fst ks) (snd ks)) (number_from 0 (w_shards w));
     i_active := map (fun h => (h, tr_job (truth_of h))) (w_active w);
     i_explore := explore_of w;
     i_scale1_ok := true |}.

(* ---- what the sidecars do with the answers ---- *)
(* the body of a target update, grouped by job as the JSON object is *)
Fixpoint group_add (j : N) (t : tgt) (a : assignment) : assignment :=
  match a with
  | [] => [(j, [t])]
  | (j', ts) :: r => if N.eqb j j' then (j', ts ++ [t]) :: r else (j', ts) :: group_add j t r
  end.
Definition request_of (body : list ptarget) : assignment :=
  fold_left (fun a p => group_add (pt_job p)
                          {| t_hash := pt_hash p; t_series := pt_series p;
                             t_total := if tr_healthy (truth_of (pt_hash p)) then tr_total (truth_of (pt_hash p)) else 0;
                             t_state := pt_state p |} a) body [].

Definition after_cycle_shard (w : world) (f : faults) (k : nat) (s : wshard) (post : option (list ptarget)) : wshard :=
  let reach := negb (hit (f_unreachable f) k) in
  let ready := negb (hit (f_not_ready f) k) in
  (* the configuration push reaches a ready, reachable shard whose hash differs, unless it is made to fail *)
  let pushed := ready && reach && negb (ws_hash_ok s) && negb (hit (f_stale f) k) in
  let sc' := match post with
             | Some body => if reach && negb (hit (f_post_lost f) k)
                            then fst (do_update (ws_sc s) (request_of body) (w_now w) true) else ws_sc s
             | None => ws_sc s
             end in
  {| ws_sc := sc'; ws_hash_ok := ws_hash_ok s || pushed |}.

Definition fresh_shard (now : Z) : wshard := {| ws_sc := do_restart fresh_sidecar now; ws_hash_ok := false |}.
Definition rescale (now : Z) (want : Z) (l : list wshard) : list wshard :=
  let n := Z.to_nat want in
  if Nat.leb n (length l) then firstn n l else l ++ repeat (fresh_shard now) (n - length l).

Fixpoint zip_posts (k : nat) (l : list wshard) (posts : list (option (list ptarget))) (w : world) (f : faults) : list wshard :=
  match l with
  | [] => []
  | s :: r => after_cycle_shard w f k s (match posts with p :: _ => p | [] => None end)
              :: zip_posts (S k) r (match posts with _ :: t => t | [] => [] end) w f
  end.
Definition apply_cycle (w : world) (f : faults) (posts : list (option (list ptarget))) (scales : list Z) : world :=
  let shards := zip_posts 0 (w_shards w) posts w f in
  {| w_shards := match scales with [] => shards | _ => rescale (w_now w) (last scales 0) shards end;
     w_active := w_active w; w_now := w_now w |}.

(* every shard scrapes every target it is assigned, `times` times *)
Definition scrape_shard (times : nat) (s : wshard) : wshard :=
  {| ws_sc := fold_left (fun sc kv =>
                 let t := truth_of (fst kv) in
                 let r := if tr_healthy t then ScrOk (tr_series t) (tr_total t) else ScrFail in
                 fold_left (fun sc _ => do_scrape sc (fst kv) r false) (seq 0 times) sc)
               (sc_status (ws_sc s)) (ws_sc s);
     ws_hash_ok := ws_hash_ok s |}.

Definition lstep_det (w : world) (st : lstep) : world :=
  match st with
  | LCycle _ => w      (* needs the observed answers: see run_lock *)
  | LScrapeAll n => {| w_shards := map (scrape_shard n) (w_shards w); w_active := w_active w; w_now := w_now w |}
  | LTick dt => {| w_shards := w_shards w; w_active := w_active w; w_now := w_now w + dt |}
  | LRestart k => {| w_shards := upd k (fun s => {| ws_sc := do_restart (ws_sc s) (w_now w); ws_hash_ok := false |}) (w_shards w);
                     w_active := w_active w; w_now := w_now w |}
  | LSetActive hs => {| w_shards := w_shards w; w_active := hs; w_now := w_now w |}
  end.
End World.

(* ---- observations of the `loop` engine ---- *)
Record lshard_obs := { lo_status : amap cstat; lo_head : Z; lo_proc : Z; lo_idle : option Z; lo_hash_ok : bool }.
Record lobs := { l_shards : list lshard_obs; l_posts : list (option (list ptarget)); l_scales : list Z; l_panic : bool }.
Record loop_case := {
  lc_opts : opts;
  lc_truth : amap truth;
  lc_active : list N;
  lc_steps : list lstep;
  lc_calm : nat;                  (* length of the fault-free suffix *)
  lc_seen : list lobs;            (* the initial state, then the state after every step *)
}.

(* the model state is (re)built from an observation for everything a sidecar reports; the scrape windows are not
   reported, so they are carried along by the lock-step run and only checked through the series they produce *)
Definition cstat_eqb (a b : cstat) : bool :=
  tstate_eqb (c_state a) (c_state b) && health_eqb (c_health a) (c_health b) && Z.eqb (c_series a) (c_series b) &&
  Z.eqb (c_total a) (c_total b) && N.eqb (c_times a) (c_times b).
Fixpoint insert_kc (x : N * cstat) (l : amap cstat) : amap cstat :=
  match l with [] => [x] | y :: r => if (fst x <=? fst y)%N then x :: l else y :: insert_kc x r end.
Definition sort_kc (l : amap cstat) : amap cstat := fold_right insert_kc [] l.
Definition shard_view (now : Z) (s : wshard) : lshard_obs :=
  {| lo_status := sort_kc (map (fun kv => (fst kv, cstat_of (snd kv))) (sc_status (ws_sc s)));
     lo_head := rt_head 0 (ws_sc s); lo_proc := rt_proc (ws_sc s);
     lo_idle := match sc_idle (ws_sc s) with Some t => Some (now - t) | None => None end;
     lo_hash_ok := ws_hash_ok s |}.
Definition lshard_eqb (a b : lshard_obs) : bool :=
  list_eqb (fun x y => N.eqb (fst x) (fst y) && cstat_eqb (snd x) (snd y)) (lo_status a) (lo_status b) &&
  Z.eqb (lo_head a) (lo_head b) && Z.eqb (lo_proc a) (lo_proc b) && option_eqb Z.eqb (lo_idle a) (lo_idle b) &&
  Bool.eqb (lo_hash_ok a) (lo_hash_ok b).
Definition view_agrees (w : world) (ob : lobs) : bool :=
  list_eqb lshard_eqb (map (shard_view (w_now w)) (w_shards w)) (l_shards ob).

(* initial world from the first observation: every copy starts with an empty scrape window *)
Definition sstat_of (c : cstat) : sstat :=
  {| ss_state := c_state c; ss_health := c_health c; ss_series := c_series c; ss_total := c_total c; ss_times := c_times c;
     ss_window := []; ss_err := false; ss_last := None |}.
Definition shard_of_obs (tru : amap truth) (ob : lshard_obs) : wshard :=
  let idle := match lo_idle ob with Some age => Some (0 - age) | None => None end in
  (* what the sidecar was asked to hold (and has stored), grouped by job *)
  let asg := fold_left (fun a kv => group_add (tr_job (truth_of tru (fst kv)))
                                      {| t_hash := fst kv; t_series := c_series (snd kv); t_total := c_total (snd kv);
                                         t_state := c_state (snd kv) |} a) (lo_status ob) [] in
  {| ws_sc := {| sc_targets := asg; sc_status := map (fun kv => (fst kv, sstat_of (snd kv))) (lo_status ob);
                 sc_idle := idle; sc_store := Some (asg, idle) |};
     ws_hash_ok := lo_hash_ok ob |}.
Definition world_of_obs (tru : amap truth) (active : list N) (ob : lobs) : world :=
  {| w_shards := map (shard_of_obs tru) (l_shards ob); w_active := active; w_now := 0 |}.

(* lock-step run: returns the indices (from 1) of the steps after which model and implementation differ, or where the
   implementation's cycle is none of the model's outcomes *)
Fixpoint run_lock (o : opts) (tru : amap truth) (w : world) (n : nat) (steps : list lstep) (seen : list lobs) : list nat :=
  match steps, seen with
  | [], _ => []
  | st :: steps', ob :: seen' =>
    match st with
    | LCycle f =>
      let inp := cycle_input tru w f in
      let obs := {| ob_logs := []; ob_posts := l_posts ob; ob_scales := l_scales ob; ob_panic := l_panic ob |} in
      let (outs, complete) := outcomes o inp in
      let found := existsb (fun out => let m := obs_of out in
                                       Bool.eqb (ob_panic m) (ob_panic obs) &&
                                       (ob_panic m || (list_eqb (option_eqb (list_eqb pt_eqb)) (ob_posts m) (ob_posts obs) &&
                                                       list_eqb Z.eqb (ob_scales m) (ob_scales obs)))) outs in
      let w' := apply_cycle tru w f (l_posts ob) (l_scales ob) in
      (if found || negb complete then [] else [n]) ++
      (if view_agrees w' ob then [] else [n]) ++ run_lock o tru w' (S n) steps' seen'
    | _ =>
      let w' := lstep_det tru w st in
      (if view_agrees w' ob then [] else [n]) ++ run_lock o tru w' (S n) steps' seen'
    end
  | _ :: _, [] => [n]
  end.

Definition loop_agree (c : loop_case) : bool :=
  match lc_seen c with
  | [] => false
  | ob0 :: seen => match run_lock (lc_opts c) (lc_truth c) (world_of_obs (lc_truth c) (lc_active c) ob0) 1 (lc_steps c) seen with [] => true | _ => false end
  end.

(* ---- C03 / C06 on the implementation's observations ---- *)
Section Monitor.
Variable o : opts.
Variable tru : amap truth.
Definition fits (t : truth) : bool :=
  ((max_head o =? 0) || (tr_series t <? max_head o)) && (tr_total t <? max_proc o).
Definition eligible (active : list N) (h : N) : bool :=
  existsb (N.eqb h) active && tr_healthy (truth_of tru h) && fits (truth_of tru h).
Definition copies (ob : lobs) (h : N) : list cstat :=
  flat_map (fun s => match afind h (lo_status s) with Some c => [c] | None => [] end) (l_shards ob).
Definition all_hashes (ob : lobs) : list N := flat_map (fun s => akeys (lo_status s)) (l_shards ob).

(* "enough allowed shards" is a premise of the property: an eligible target may stay unplaced only when the replica
   is at max-shard and no shard has room for it by the coordinator's own admission rule (getFreeShard) *)
Definition no_room_at_cap (ob : lobs) (t : truth) : bool :=
  (max_shard o <=? Z.of_nat (length (l_shards ob))) &&
  forallb (fun s => negb (((max_head o =? 0) || (lo_head s + tr_series t <? max_head o)) && (lo_proc s + tr_total t <? max_proc o)))
          (l_shards ob).
(* every eligible target scraped by exactly one shard in normal state, no transfer pending, nothing that left
   discovery still held, no target larger than a shard's limit assigned *)
Definition converged (active : list N) (ob : lobs) : bool :=
  forallb (fun h => negb (eligible active h) ||
                    match copies ob h with
                    | [c] => tstate_eqb (c_state c) Normal
                    | [] => no_room_at_cap ob (truth_of tru h)
                    | _ => false
                    end) active &&
  forallb (fun s => forallb (fun kv => tstate_eqb (c_state (snd kv)) Normal &&
                                       existsb (N.eqb (fst kv)) active) (lo_status s)) (l_shards ob).
Definition placement (ob : lobs) : list (list (N * tstate)) :=
  map (fun s => map (fun kv => (fst kv, c_state (snd kv))) (lo_status s)) (l_shards ob).
Definition placement_eqb (a b : lobs) : bool :=
  list_eqb (list_eqb (fun x y => N.eqb (fst x) (fst y) && tstate_eqb (snd x) (snd y))) (placement a) (placement b).

(* the final active set of a history *)
Definition final_active (active : list N) (steps : list lstep) : list N :=
  fold_left (fun a st => match st with LSetActive hs => hs | _ => a end) steps active.
End Monitor.

(* a run that ends with a long enough fault-free suffix (every assigned copy scraped three times per round, enough
   allowed shards) ends converged, and the last two rounds did not change the placement *)
Definition c03_end (c : loop_case) : bool :=
  let seen := lc_seen c in
  match rev seen with
  | last_ob :: _ :: _ :: prev_round :: _ =>
    converged (lc_opts c) (lc_truth c) (final_active (lc_active c) (lc_steps c)) last_ob && placement_eqb last_ob prev_round
  | _ => true
  end.
Definition has_fault (st : lstep) : bool :=
  match st with
  | LCycle f => negb (match f_post_lost f, f_unreachable f, f_not_ready f, f_stale f with [], [], [], [] => true | _, _, _, _ => false end)
  | LRestart _ => true
  | _ => false
  end.
Definition faulty_history (c : loop_case) : bool := existsb has_fault (lc_steps c).
Definition no_panic (c : loop_case) : bool := forallb (fun ob => negb (l_panic ob)) (lc_seen c).
(* "whenever all shards are in sync and an eligible unscraped target cannot be placed, the requested shard count exceeds
   the current one" - on every fault-free cycle of the history *)
Fixpoint grow_walk (o : opts) (tru : amap truth) (active : list N) (prev : lobs) (steps : list lstep) (seen : list lobs) : bool :=
  match steps, seen with
  | st :: steps', cur :: seen' =>
    let active' := match st with LSetActive hs => hs | _ => active end in
    (match st with
     | LCycle f =>
       let n := Z.of_nat (length (l_shards prev)) in
       let calm := negb (has_fault st) && forallb lo_hash_ok (l_shards prev) in
       let stuck h := eligible o tru active h && (0 <? tr_series (truth_of tru h) + tr_total (truth_of tru h)) &&
                      negb (existsb (N.eqb h) (all_hashes prev)) && negb (existsb (N.eqb h) (all_hashes cur)) in
       negb calm || negb (n <? max_shard o) || negb (existsb stuck active) || l_panic cur ||
       existsb (fun r => n <? r) (l_scales cur)
     | _ => true
     end) && grow_walk o tru active' cur steps' seen'
  | _, _ => true
  end.
Definition c03_grow (c : loop_case) : bool :=
  match lc_seen c with
  | ob0 :: seen => grow_walk (lc_opts c) (lc_truth c) (lc_active c) ob0 (lc_steps c) seen
  | [] => true
  end.

(* C05 / C01 in the closed loop: a discovered target that some shard holds is held by some shard after every step -
   cycles with any faults, scrape rounds, ticks, restarts (Proofs/WorldNoGap.v history_no_gap, evaluated here on what
   the REAL sidecars reported after every step) *)
Fixpoint gap_walk (active : list N) (prev : lobs) (steps : list lstep) (seen : list lobs) : bool :=
  match steps, seen with
  | st :: steps', cur :: seen' =>
    let active' := match st with LSetActive hs => hs | _ => active end in
    forallb (fun h => negb (existsb (N.eqb h) (all_hashes prev)) || existsb (N.eqb h) (all_hashes cur)) active' &&
    gap_walk active' cur steps' seen'
  | _, _ => true
  end.
Definition c05_loop_case (c : loop_case) : bool :=
  no_panic c &&
  match lc_seen c with
  | ob0 :: seen => gap_walk (lc_active c) ob0 (lc_steps c) seen
  | [] => true
  end.

(* C03: histories without faults; C06: histories with faults in their prefix *)
Definition c03_case (c : loop_case) : bool := no_panic c && c03_grow c && (faulty_history c || c03_end c).
Definition c06_case (c : loop_case) : bool := no_panic c && (negb (faulty_history c) || c03_end c).

(* ---- the model on its own (for computed examples): a cycle under a given schedule ---- *)
Definition model_cycle (o : opts) (tru : amap truth) (w : world) (f : faults) (sch : list nat) : world :=
  let out := cycle o (cycle_input tru w f) sch in
  apply_cycle tru w f (o_posts out) (o_scales out).
Definition model_step (o : opts) (tru : amap truth) (w : world) (st : lstep) : world :=
  match st with LCycle f => model_cycle o tru w f [] | _ => lstep_det tru w st end.
Definition model_run (o : opts) (tru : amap truth) (w : world) (steps : list lstep) : world := fold_left (model_step o tru) steps w.
Definition obs_of_world (w : world) : lobs :=
  {| l_shards := map (shard_view (w_now w)) (w_shards w); l_posts := []; l_scales := []; l_panic := false |}.
Definition calm_round : list lstep := [LCycle no_faults; LScrapeAll 3; LTick 400].
