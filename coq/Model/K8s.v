(* Model/K8s.v — model of pkg/shard/kubernetes/shardmanager.go (Shards, ChangeScale) and of the
   skip rule of replicasmanager.go (Replicas, first call on a fresh manager).
   Executable; evaluated against the real code by the `k8s` engine of the harness. *)
From KV Require Import Base.Util.
Local Open Scope string_scope.
Local Open Scope list_scope.
Local Open Scope Z_scope.

Record pod := { p_name : string; p_ip : string }.
Record cluster := {
  spec_replicas : option Z;          (* StatefulSet .spec.replicas; None = nil pointer *)
  templates : list string;           (* names of .spec.volumeClaimTemplates, in order *)
  pvcs : list string                 (* names of all PVC objects in the namespace *)
}.
Record shard_out := { s_id : string; s_url : string; s_ready : bool }.

Definition pvc_name (tpl set : string) (i : Z) : string := tpl +++ "-" +++ set +++ "-" +++ decZ i.
Definition pod_name (set : string) (i : N) : string := set +++ "-" +++ dec i.

(* names ChangeScale asks the API server to delete: for i := old-1; i >= e; i-- ; for each template *)
Definition deleted_names (set : string) (tpls : list string) (old e : Z) : list string :=
  flat_map (fun i => map (fun t => pvc_name t set i) tpls) (rev (zrange e old)).

Definition change_scale (del : bool) (set : string) (e : Z) (c : cluster) : cluster :=
  match spec_replicas c with
  | None => c
  | Some old =>
    if old =? e then c
    else {| spec_replicas := Some e;
            templates := templates c;
            pvcs := if del
                    then filter (fun n => negb (str_mem n (deleted_names set (templates c) old e))) (pvcs c)
                    else pvcs c |}
  end.

(* with a failing StatefulSet update (conflict, API error): the error is returned before anything else happens *)
Definition change_scale_f (upd_fails del : bool) (set : string) (e : Z) (c : cluster) : cluster * bool :=
  match spec_replicas c with
  | None => (c, false)
  | Some old => if old =? e then (c, false) else if upd_fails then (c, true) else (change_scale del set e c, false)
  end.

(* ps[p.Name] = p over the listed pods: a later pod with the same name wins *)
Definition pod_map (pods : list pod) : list (string * pod) :=
  map (fun p => (p_name p, p)) (rev pods).
Definition zero_pod : pod := {| p_name := ""; p_ip := "" |}.
Definition pod_at (set : string) (pods : list pod) (i : nat) : pod :=
  match lookup (pod_name set (N.of_nat i)) (pod_map pods) with Some p => p | None => zero_pod end.
Definition shard_of (port : Z) (p : pod) : shard_out :=
  {| s_id := p_name p;
     s_url := "http://" +++ p_ip p +++ ":" +++ decZ port;
     s_ready := negb (String.eqb (p_ip p) "") |}.
(* for index := range pods.Items *)
Definition shards (set : string) (port : Z) (pods : list pod) : list shard_out :=
  map (fun i => shard_of port (pod_at set pods i)) (seq 0 (length pods)).

(* Replicas(): first call on a fresh ReplicasManager (no remembered wait time). *)
Record sts_status := { st_name : string; st_replicas : Z; st_updated : Z; st_ready : Z }.
Definition coordinated_first_call (s : sts_status) : bool :=
  (st_replicas s =? st_updated s) && (st_ready s =? st_replicas s).
Definition replicas_first_call (l : list sts_status) : list string :=
  map st_name (filter coordinated_first_call l).

(* Replicas() over time: one ReplicasManager remembers, per StatefulSet, since when it has been waiting for it to
   become ready (nil = absent). A set that is being updated is skipped and its memory cleared; a set that is not ready
   is skipped until two minutes have passed since it was first seen so; the memory is not cleared when it is ready. *)
Definition rm_state := list (string * Z).
Fixpoint rm_find (n : string) (st : rm_state) : option Z :=
  match st with [] => None | (k, v) :: r => if String.eqb n k then Some v else rm_find n r end.
Fixpoint rm_del (n : string) (st : rm_state) : rm_state :=
  match st with [] => [] | (k, v) :: r => if String.eqb n k then rm_del n r else (k, v) :: rm_del n r end.
Definition rm_set (n : string) (v : Z) (st : rm_state) : rm_state := (n, v) :: rm_del n st.
Definition wait_seconds : Z := 120.
Definition replicas_one (now : Z) (st : rm_state) (s : sts_status) : rm_state * bool :=
  if negb (st_replicas s =? st_updated s) then (rm_del (st_name s) st, false)
  else
    let notready := negb (st_ready s =? st_replicas s) in
    let st1 := match rm_find (st_name s) st with
               | None => if notready then rm_set (st_name s) now st else st
               | Some _ => st
               end in
    match rm_find (st_name s) st1 with
    | Some t => (st1, negb (notready && (now - t <? wait_seconds)))
    | None => (st1, true)
    end.
Fixpoint replicas_call (now : Z) (st : rm_state) (l : list sts_status) : rm_state * list string :=
  match l with
  | [] => (st, [])
  | s :: r => let (st1, take) := replicas_one now st s in
              let (st2, names) := replicas_call now st1 r in
              (st2, if take then st_name s :: names else names)
  end.
(* a history of calls: (seconds passed since the previous call, what the API server lists) *)
Fixpoint replicas_hist (now : Z) (st : rm_state) (calls : list (Z * list sts_status)) : list (list string) :=
  match calls with
  | [] => []
  | (dt, l) :: r => let (st1, names) := replicas_call (now + dt) st l in names :: replicas_hist (now + dt) st1 r
  end.

(* ---- observation used by the correspondence check ---- *)
Definition shard_out_eqb (a b : shard_out) : bool :=
  String.eqb (s_id a) (s_id b) && String.eqb (s_url a) (s_url b) && Bool.eqb (s_ready a) (s_ready b).
Definition cluster_eqb (a b : cluster) : bool :=
  option_eqb Z.eqb (spec_replicas a) (spec_replicas b) &&
  list_eqb String.eqb (templates a) (templates b) &&
  list_eqb String.eqb (pvcs a) (pvcs b).
