(* Model/SidecarCheck.v — case format and monitors for the `sidecar` engine (C10, C14, parts of C13). *)
From KV Require Import Base.Util Base.AMap Base.Float64 Model.Coordinator Model.Sidecar.
Local Open Scope list_scope.
Local Open Scope Z_scope.

(* one status entry as served by GET /api/v1/shard/targets/status/ *)
Record sobs := { sb_hash : N; sb_state : tstate; sb_health : health; sb_series : Z; sb_total : Z; sb_times : N; sb_err : bool;
                 sb_errkind : N (* what LastError says: 0 nothing, 1 the stop-scrape reason, 2 connection failed, 3 HTTP status, 4 body broke off, 5 else;
                                   read by the C13 monitor only, the model does not carry it *) }.
(* one job as served by GET /api/v1/shard/samples/?with_metrics_detail=true: the samples kept after metric relabeling, and per
   metric (the harness' payloads have two: `keepme`, `dropme`) the (kept, all) counts *)
Record samp := { sm_job : N; sm_scraped : Z; sm_keep : Z * Z; sm_drop : Z * Z }.
Record sc_obs := { so_status : list sobs (* sorted by hash *); so_head : Z; so_proc : Z; so_idle : option Z; so_ok : bool (* the op's API call succeeded *);
                   so_samples : list samp (* sorted by job *); so_samples_stable : bool (* a second GET answered the same *);
                   so_injected : list (N * list N) (* what the injector wrote for the shard's Prometheus: per job (ascending) the hashes
                                                      (ascending) of its static targets; jobs without targets left out *) }.
Record sc_case := { sk_prom : Z; sk_now0 : Z; sk_ops : list sc_op; sk_seen : list sc_obs (* after start-up, then after each op *);
                    sk_kinds : list N (* per op: how the scripted target failed (2 connection, 3 status, 4 body), 0 otherwise *);
                    sk_legacy : assignment (* what a store file of the old format (targets.json) in the store directory holds; [] = no such file *) }.

Fixpoint insert_sobs (t : sobs) (l : list sobs) : list sobs :=
  match l with
  | [] => [t]
  | x :: r => if (sb_hash t <=? sb_hash x)%N then t :: l else x :: insert_sobs t r
  end.
Definition obs_status (st : amap sstat) : list sobs :=
  fold_right insert_sobs [] (map (fun kv => {| sb_hash := fst kv; sb_state := ss_state (snd kv); sb_health := ss_health (snd kv);
                                               sb_series := ss_series (snd kv); sb_total := ss_total (snd kv);
                                               sb_times := ss_times (snd kv); sb_err := ss_err (snd kv); sb_errkind := 0 |}) st).
(* service.go samples: per job of the assignment, sums over its targets' last-scrape statistics *)
Definition samples_of_job (st : amap sstat) (j : N) (ts : list tgt) : samp :=
  let lasts := flat_map (fun t => match afind (t_hash t) st with
                                  | Some e => match ss_last e with Some kt => [kt] | None => [] end
                                  | None => []
                                  end) ts in
  let kept := fold_left (fun a kt => a + fst kt) lasts 0 in
  let dropped := fold_left (fun a kt => a + (snd kt - fst kt)) lasts 0 in
  {| sm_job := j; sm_scraped := kept; sm_keep := (kept, kept); sm_drop := (0, dropped) |}.
Fixpoint insert_samp (t : samp) (l : list samp) : list samp :=
  match l with
  | [] => [t]
  | x :: r => if (sm_job t <=? sm_job x)%N then t :: l else x :: insert_samp t r
  end.
Definition model_samples (s : sidecar) : list samp :=
  fold_right insert_samp [] (map (fun jt => samples_of_job (sc_status s) (fst jt) (snd jt)) (sc_targets s)).
(* the generated configuration file: the real binary hands every assignment the targets manager takes up - from a
   request or from its store - to the injector before anything else (cmd/kvass/sidecar.go) *)
Fixpoint insert_N (x : N) (l : list N) : list N :=
  match l with [] => [x] | y :: r => if (x <=? y)%N then x :: l else y :: insert_N x r end.
Fixpoint insert_job (j : N) (hs : list N) (l : list (N * list N)) : list (N * list N) :=
  match l with
  | [] => [(j, hs)]
  | (j', hs') :: r => if N.eqb j j' then (j', fold_right insert_N hs' hs) :: r
                      else if (j <? j')%N then (j, hs) :: l else (j', hs') :: insert_job j hs r
  end.
Definition model_injected (s : sidecar) : list (N * list N) :=
  filter (fun jh => negb (match snd jh with [] => true | _ => false end))
         (fold_right (fun jt acc => insert_job (fst jt) (fold_right insert_N [] (map t_hash (snd jt))) acc) [] (sc_targets s)).
Definition obs_of_sidecar (prom : Z) (s : sidecar) (ok : bool) : sc_obs :=
  {| so_status := obs_status (sc_status s); so_head := rt_head prom s; so_proc := rt_proc s; so_idle := sc_idle s; so_ok := ok;
     so_samples := model_samples s; so_samples_stable := true; so_injected := model_injected s |}.

Definition sobs_eqb (a b : sobs) : bool :=
  N.eqb (sb_hash a) (sb_hash b) && tstate_eqb (sb_state a) (sb_state b) && health_eqb (sb_health a) (sb_health b) &&
  Z.eqb (sb_series a) (sb_series b) && Z.eqb (sb_total a) (sb_total b) && N.eqb (sb_times a) (sb_times b) &&
  Bool.eqb (sb_err a) (sb_err b).
Definition sc_obs_eqb (a b : sc_obs) : bool :=
  list_eqb sobs_eqb (so_status a) (so_status b) && Z.eqb (so_head a) (so_head b) && Z.eqb (so_proc a) (so_proc b) &&
  option_eqb Z.eqb (so_idle a) (so_idle b) && Bool.eqb (so_ok a) (so_ok b) &&
  list_eqb (fun x y => N.eqb (sm_job x) (sm_job y) && Z.eqb (sm_scraped x) (sm_scraped y) &&
                       Z.eqb (fst (sm_keep x)) (fst (sm_keep y)) && Z.eqb (snd (sm_keep x)) (snd (sm_keep y)) &&
                       Z.eqb (fst (sm_drop x)) (fst (sm_drop y)) && Z.eqb (snd (sm_drop x)) (snd (sm_drop y)))
           (so_samples a) (so_samples b) &&
  Bool.eqb (so_samples_stable a) (so_samples_stable b) &&
  list_eqb (fun x y => N.eqb (fst x) (fst y) && list_eqb N.eqb (snd x) (snd y)) (so_injected a) (so_injected b).

Definition op_ok (s : sidecar) (op : sc_op) : bool :=
  match op with OpUpdate req now ok => ok | _ => true end.

(* the model's observation sequence *)
Fixpoint model_trace (prom : Z) (s : sidecar) (ops : list sc_op) : list sc_obs :=
  match ops with
  | [] => []
  | op :: r => let s' := sc_step s op in obs_of_sidecar prom s' (op_ok s op) :: model_trace prom s' r
  end.
Definition sidecar_start (now0 : Z) : sidecar := do_restart fresh_sidecar now0.
(* a store directory that holds only a file of the old format: the assignment without an idle instant *)
Definition sidecar_start_with (legacy : assignment) (now0 : Z) : sidecar :=
  match legacy with
  | [] => sidecar_start now0
  | _ => do_restart {| sc_targets := []; sc_status := []; sc_idle := None; sc_store := Some (legacy, None) |} now0
  end.
Definition sidecar_agree (c : sc_case) : bool :=
  let s0 := sidecar_start_with (sk_legacy c) (sk_now0 c) in
  list_eqb sc_obs_eqb (obs_of_sidecar (sk_prom c) s0 true :: model_trace (sk_prom c) s0 (sk_ops c)) (sk_seen c).

(* ---- C10: one-step checks between consecutive observations of the implementation ---- *)
Definition find_sobs (h : N) (l : list sobs) : option sobs := find (fun x => N.eqb (sb_hash x) h) l.
Definition hashes_unique (a : assignment) : bool :=
  let hs := map t_hash (all_targets a) in
  forallb (fun h => Nat.eqb (length (filter (N.eqb h) hs)) 1) hs.

Definition idle_ok (prev cur : sc_obs) (now : Z) : bool :=
  match so_status cur with
  | [] => match so_idle prev with
          | Some t => option_eqb Z.eqb (so_idle cur) (Some t)          (* the instant is kept *)
          | None => option_eqb Z.eqb (so_idle cur) (Some now)
          end
  | _ :: _ => match so_idle cur with None => true | Some _ => false end
  end.

Definition c10_update_ok (prev cur : sc_obs) (req : assignment) (now : Z) : bool :=
  negb (hashes_unique req) ||
  ((* exactly one entry per assigned hash *)
   Nat.eqb (length (so_status cur)) (length (all_targets req)) &&
   forallb (fun t =>
     match find_sobs (t_hash t) (so_status cur) with
     | None => false
     | Some c =>
       tstate_eqb (sb_state c) (t_state t) &&
       match find_sobs (t_hash t) (so_status prev) with
       | None => (* new: unknown health, the coordinator's estimate, counter 0 *)
         health_eqb (sb_health c) Unknown && Z.eqb (sb_series c) (t_series t) && Z.eqb (sb_total c) (t_total t) &&
         N.eqb (sb_times c) 0 && negb (sb_err c)
       | Some p => (* kept: statistics and health retained; counter restarts exactly on Normal -> InTransfer *)
         health_eqb (sb_health c) (sb_health p) && Z.eqb (sb_series c) (sb_series p) && Z.eqb (sb_total c) (sb_total p) &&
         Bool.eqb (sb_err c) (sb_err p) &&
         N.eqb (sb_times c) (if tstate_eqb (sb_state p) Normal && tstate_eqb (t_state t) InTransfer then 0%N else sb_times p)
       end
     end) (all_targets req) &&
   idle_ok prev cur now).

(* a restart resumes the last acknowledged assignment (statistics restart) and keeps the idle instant *)
Definition c10_restart_ok (acked : assignment) (prev cur : sc_obs) (now : Z) : bool :=
  negb (hashes_unique acked) ||
  (Nat.eqb (length (so_status cur)) (length (all_targets acked)) &&
   forallb (fun t => match find_sobs (t_hash t) (so_status cur) with
                     | Some c => tstate_eqb (sb_state c) (t_state t) && health_eqb (sb_health c) Unknown &&
                                 Z.eqb (sb_series c) (t_series t) && Z.eqb (sb_total c) (t_total t) && N.eqb (sb_times c) 0
                     | None => false
                     end) (all_targets acked)).

(* a scrape touches only the scraped target's entry, never the set of entries or the idle instant *)
Definition c10_scrape_ok (prev cur : sc_obs) (h : N) : bool :=
  list_eqb N.eqb (map sb_hash (so_status prev)) (map sb_hash (so_status cur)) &&
  forallb (fun c => N.eqb (sb_hash c) h ||
                    match find_sobs (sb_hash c) (so_status prev) with Some p => sobs_eqb p c | None => false end) (so_status cur) &&
  option_eqb Z.eqb (so_idle prev) (so_idle cur).

Fixpoint c10_walk (acked : assignment) (acked_idle_known : bool) (prev : sc_obs) (ops : list sc_op) (seen : list sc_obs) : bool :=
  match ops, seen with
  | [], _ => true
  | op :: ops', cur :: seen' =>
    match op with
    | OpUpdate req now ok =>
      c10_update_ok prev cur req now && c10_walk (if ok then req else acked) ok cur ops' seen'
    | OpScrape h r stopped => c10_scrape_ok prev cur h && c10_walk acked acked_idle_known cur ops' seen'
    | OpRestart now =>
      c10_restart_ok acked prev cur now &&
      (* idle instant across a restart: kept when the acknowledged state was idle too *)
      (negb acked_idle_known ||
       match so_status prev, so_status cur with
       | [], [] => option_eqb Z.eqb (so_idle cur) (so_idle prev)
       | _, [] => match so_idle cur with Some _ => true | None => false end
       | _, _ :: _ => match so_idle cur with None => true | Some _ => false end
       end) &&
      c10_walk acked true cur ops' seen'
    end
  | _ :: _, [] => false
  end.
(* ---- C05 on the sidecar: the two counters the hand-over rule reads mean what it needs ----
   "the destination reports at least three scrapes of it": the counter of a target that was not assigned before this
   update starts at 0; "the source has scraped it three times since the move began": the counter restarts when a
   normal copy is marked in_transfer and at no other update; every scrape of an assigned target adds exactly one; a
   restart starts every counter again *)
Definition c05_counter_ok (prev cur : sc_obs) (req : assignment) : bool :=
  negb (hashes_unique req) ||
  forallb (fun t =>
    match find_sobs (t_hash t) (so_status cur) with
    | None => false
    | Some c =>
      match find_sobs (t_hash t) (so_status prev) with
      | None => N.eqb (sb_times c) 0
      | Some p => N.eqb (sb_times c) (if tstate_eqb (sb_state p) Normal && tstate_eqb (t_state t) InTransfer then 0%N else sb_times p)
      end
    end) (all_targets req).
Fixpoint c05_walk (prev : sc_obs) (ops : list sc_op) (seen : list sc_obs) : bool :=
  match ops, seen with
  | [], _ => true
  | op :: ops', cur :: seen' =>
    match op with
    | OpUpdate req now ok => c05_counter_ok prev cur req
    | OpScrape h r stopped =>
      match find_sobs h (so_status prev), find_sobs h (so_status cur) with
      | Some p, Some c => N.eqb (sb_times c) (sb_times p + 1)
      | None, None => true
      | _, _ => false
      end
    | OpRestart now => forallb (fun c => N.eqb (sb_times c) 0) (so_status cur)
    end && c05_walk cur ops' seen'
  | _ :: _, [] => false
  end.
Definition c05_sidecar_case (c : sc_case) : bool :=
  match sk_seen c with first :: rest => c05_walk first (sk_ops c) rest | [] => false end.

Definition c10_case (c : sc_case) : bool :=
  match sk_seen c with
  | first :: rest =>
    (* after start-up with an empty store: no entries, idle since start-up *)
    match sk_legacy c with
    | [] => match so_status first with [] => option_eqb Z.eqb (so_idle first) (Some (sk_now0 c)) | _ => false end
    | _ => true   (* resumed from a store of the old format: the restart clause of the walk describes it, below from the first op on *)
    end &&
    c10_walk (sk_legacy c) true first (sk_ops c) rest
  | [] => false
  end.

(* ---- C14: accounting ---- *)
(* the window of a target as a function of the history: successful scrape sizes since its entry was created *)
Fixpoint spec_windows (win : amap (list Z)) (acked : assignment) (ops : list sc_op) (seen : list sc_obs) (prom : Z) : bool :=
  match ops, seen with
  | [], _ => true
  | op :: ops', cur :: seen' =>
    let sums_ok :=
      Z.eqb (so_proc cur) (fold_left (fun a c => a + sb_total c) (so_status cur) 0) &&
      Z.eqb (so_head cur) (Z.max prom (fold_left (fun a c => a + sb_series c) (so_status cur) 0)) in
    match op with
    | OpUpdate req now ok =>
      let win' := map (fun t => (t_hash t, match afind (t_hash t) win with Some w => w | None => [] end)) (all_targets req) in
      sums_ok && spec_windows win' (if ok then req else acked) ops' seen' prom
    | OpRestart now =>
      sums_ok && spec_windows (map (fun t => (t_hash t, [])) (all_targets acked)) acked ops' seen' prom
    | OpScrape h r stopped =>
      match afind h win, r with
      | Some w, ScrOk scraped total =>
        let w' := w ++ [scraped] in
        let last3 := skipn (length w' - 3) w' in
        sums_ok &&
        match find_sobs h (so_status cur) with
        | Some c => Z.eqb (sb_series c) (div_round (fold_left Z.add last3 0) (Z.of_nat (length last3))) &&
                    Z.eqb (sb_total c) total && health_eqb (sb_health c) (if stopped then Bad else Good) &&
                    Bool.eqb (sb_err c) stopped
        | None => false
        end && spec_windows (aset h w' win) acked ops' seen' prom
      | Some w, ScrFail =>
        sums_ok &&
        match find_sobs h (so_status cur) with
        | Some c => health_eqb (sb_health c) Bad && sb_err c
        | None => false
        end && spec_windows win acked ops' seen' prom
      | None, _ => sums_ok && spec_windows win acked ops' seen' prom
      end
    end
  | _ :: _, [] => false
  end.
Definition c14_case (c : sc_case) : bool :=
  match sk_seen c with
  | first :: rest => negb (forallb (fun op => match op with OpUpdate req _ _ => hashes_unique req | _ => true end) (sk_ops c)) ||
                     (spec_windows (map (fun t => (t_hash t, [])) (all_targets (sk_legacy c))) (sk_legacy c) (sk_ops c) rest (sk_prom c) &&
                      (* the per-metric counts add up to the totals, and reading them does not change them *)
                      forallb (fun o => so_samples_stable o &&
                                        forallb (fun m => Z.eqb (sm_scraped m) (fst (sm_keep m) + fst (sm_drop m))) (so_samples o)) (sk_seen c))
  | [] => false
  end.

(* every scrape attempt for an assigned target increments its counter exactly once (C13, counter part) *)
Fixpoint c13_counter_walk (prev : sc_obs) (ops : list sc_op) (seen : list sc_obs) : bool :=
  match ops, seen with
  | [], _ => true
  | op :: ops', cur :: seen' =>
    match op with
    | OpScrape h r stopped =>
      match find_sobs h (so_status prev), find_sobs h (so_status cur) with
      | Some p, Some c => N.eqb (sb_times c) (sb_times p + 1) &&
                          (match r with ScrOk _ _ => if stopped then health_eqb (sb_health c) Bad && sb_err c
                                                     else health_eqb (sb_health c) Good && negb (sb_err c)
                                    | ScrFail => health_eqb (sb_health c) Bad && sb_err c end)
      | None, None => true
      | _, _ => false
      end
    | _ => true
    end && c13_counter_walk cur ops' seen'
  | _ :: _, [] => false
  end.
(* "health down with the error": after a scrape the status names the failure of THAT scrape (or nothing after a success);
   every other entry keeps what it said; a new entry and an entry after a restart say nothing *)
Fixpoint c13_error_walk (prev : sc_obs) (ops : list sc_op) (kinds : list N) (seen : list sc_obs) : bool :=
  match ops, kinds, seen with
  | [], _, _ => true
  | op :: ops', k :: kinds', cur :: seen' =>
    forallb (fun c =>
      let before := match find_sobs (sb_hash c) (so_status prev) with Some p => sb_errkind p | None => 0%N end in
      match op with
      | OpScrape h r stopped =>
        if N.eqb (sb_hash c) h
        then N.eqb (sb_errkind c) (match r with ScrOk _ _ => if stopped then 1%N else 0%N | ScrFail => k end)
        else N.eqb (sb_errkind c) before
      | OpUpdate _ _ _ => N.eqb (sb_errkind c) before
      | OpRestart _ => N.eqb (sb_errkind c) 0
      end) (so_status cur) && c13_error_walk cur ops' kinds' seen'
  | _, _, _ => false
  end.
Definition c13_counter_case (c : sc_case) : bool :=
  match sk_seen c with
  | first :: rest => c13_counter_walk first (sk_ops c) rest && c13_error_walk first (sk_ops c) (sk_kinds c) rest
  | [] => false
  end.
