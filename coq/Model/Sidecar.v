(* Model/Sidecar.v — the sidecar's bookkeeping: pkg/sidecar/targets.go (UpdateTargets, updateStatus,
   updateIdleState, Load as restart, saveTargets as an abstract store), the status mutations done by
   pkg/sidecar/proxy.go's deferred completion, pkg/target/status.go (NewScrapeStatus, SetScrapeErr,
   UpdateScrapeResult) and pkg/sidecar/service.go runtimeInfo. *)
From KV Require Import Base.Util Base.AMap Base.Float64 Model.Coordinator.
Local Open Scope list_scope.
Local Open Scope Z_scope.

Record tgt := { t_hash : N; t_series : Z; t_total : Z; t_state : tstate }.
Record sstat := {
  ss_state : tstate; ss_health : health; ss_series : Z; ss_total : Z; ss_times : N;
  ss_window : list Z;      (* lastSeries: sizes of the last up to three successful scrapes *)
  ss_err : bool;           (* LastError <> "" *)
  ss_last : option (Z * Z);   (* LastScrapeStatistics: samples (kept, all) of the last scrape, if it delivered a whole payload *)
}.
(* target.NewScrapeStatus *)
Definition new_sstat (series total : Z) : sstat :=
  {| ss_state := Normal; ss_health := Unknown; ss_series := series; ss_total := total; ss_times := 0;
     ss_window := []; ss_err := false; ss_last := None |}.

Definition assignment := list (N * list tgt).          (* job -> targets *)
Record sidecar := {
  sc_targets : assignment;
  sc_status : amap sstat;
  sc_idle : option Z;                                   (* IdleAt *)
  sc_store : option (assignment * option Z);            (* what the store file holds *)
}.
Definition fresh_sidecar : sidecar := {| sc_targets := []; sc_status := []; sc_idle := None; sc_store := None |}.

Definition all_targets (a : assignment) : list tgt := flat_map snd a.

(* updateStatus: one visit of `for _, tar := range ts` *)
Definition visit (old : amap sstat) (new : amap sstat) (t : tgt) : amap sstat :=
  let base := match afind (t_hash t) old with
              | None => new_sstat (t_series t) (t_total t)
              | Some s => match afind (t_hash t) new with Some s' => s' | None => s end   (* same object *)
              end in
  let times := if tstate_eqb (ss_state base) Normal && tstate_eqb (t_state t) InTransfer then 0%N else ss_times base in
  aset (t_hash t)
       {| ss_state := t_state t; ss_health := ss_health base; ss_series := ss_series base; ss_total := ss_total base;
          ss_times := times; ss_window := ss_window base; ss_err := ss_err base; ss_last := ss_last base |} new.
Definition update_status (old : amap sstat) (a : assignment) : amap sstat :=
  fold_left (visit old) (all_targets a) [].

(* updateIdleState *)
Definition update_idle (status : amap sstat) (idle : option Z) (now : Z) : option Z :=
  match status with
  | [] => match idle with None => Some now | Some t => Some t end
  | _ :: _ => None
  end.

Inductive scrape_result :=
| ScrOk (scraped total : Z)          (* the real scrape succeeded; sample counts after / before metric relabeling *)
| ScrFail.                           (* connection error, non-200, broken body, time-out *)

Inductive sc_op :=
| OpUpdate (req : assignment) (now : Z) (callbacks_ok : bool)
| OpScrape (h : N) (r : scrape_result) (stopped : bool)     (* stopped: a stop-scrape reason is configured *)
| OpRestart (now : Z).

(* UpdateTargets *)
Definition do_update (s : sidecar) (req : assignment) (now : Z) (cb_ok : bool) : sidecar * bool :=
  let status := update_status (sc_status s) req in
  let idle := update_idle status (sc_idle s) now in
  if cb_ok
  then ({| sc_targets := req; sc_status := status; sc_idle := idle; sc_store := Some (req, idle) |}, true)
  else ({| sc_targets := req; sc_status := status; sc_idle := idle; sc_store := sc_store s |}, false).

(* a new process: NewTargetsManager + Load() (store intact) *)
Definition do_restart (s : sidecar) (now : Z) : sidecar :=
  let loaded := match sc_store s with Some (a, idl) => (a, idl) | None => ([], None) end in
  fst (do_update {| sc_targets := fst loaded; sc_status := []; sc_idle := snd loaded; sc_store := sc_store s |}
                 (fst loaded) now true).

(* UpdateScrapeResult: sliding window of three, integer mean through float64 *)
Definition push_window (w : list Z) (x : Z) : list Z :=
  if Nat.ltb (length w) 3 then w ++ [x] else tl w ++ [x].
Definition window_mean (w : list Z) : Z := div_round (fold_left Z.add w 0) (Z.of_nat (length w)).

Definition scrape_status (st : sstat) (r : scrape_result) (stopped : bool) : sstat :=
  match r with
  | ScrOk scraped total =>
    let w := push_window (ss_window st) scraped in
    {| ss_state := ss_state st; ss_health := if stopped then Bad else Good;
       ss_series := window_mean w; ss_total := total; ss_times := ss_times st + 1;
       ss_window := w; ss_err := stopped; ss_last := Some (scraped, total) |}
  | ScrFail =>
    {| ss_state := ss_state st; ss_health := Bad; ss_series := ss_series st; ss_total := ss_total st;
       ss_times := ss_times st + 1; ss_window := ss_window st; ss_err := true; ss_last := None |}
  end.

Definition do_scrape (s : sidecar) (h : N) (r : scrape_result) (stopped : bool) : sidecar :=
  match afind h (sc_status s) with
  | None => s                                    (* not assigned to this shard: nothing recorded *)
  | Some st => {| sc_targets := sc_targets s; sc_status := aset h (scrape_status st r stopped) (sc_status s);
                  sc_idle := sc_idle s; sc_store := sc_store s |}
  end.

Definition sc_step (s : sidecar) (op : sc_op) : sidecar :=
  match op with
  | OpUpdate req now ok => fst (do_update s req now ok)
  | OpScrape h r stopped => do_scrape s h r stopped
  | OpRestart now => do_restart s now
  end.
Definition sc_run (s : sidecar) (ops : list sc_op) : sidecar := fold_left sc_step ops s.

(* service.go runtimeInfo *)
Definition sum_series (st : amap sstat) : Z := fold_left (fun a kv => a + ss_series (snd kv)) st 0.
Definition sum_total (st : amap sstat) : Z := fold_left (fun a kv => a + ss_total (snd kv)) st 0.
Definition rt_head (prom_head : Z) (s : sidecar) : Z := Z.max prom_head (sum_series (sc_status s)).
Definition rt_proc (s : sidecar) : Z := sum_total (sc_status s).
