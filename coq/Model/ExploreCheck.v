(* Model/ExploreCheck.v — case format and monitors for the `explore` engine (C20). *)
From KV Require Import Base.Util Base.AMap Model.Coordinator Model.Explore.
Local Open Scope list_scope.
Local Open Scope Z_scope.

Record x_obs := {
  xo_inflight : list N;                               (* hashes of the probes blocked right now, sorted *)
  xo_started : list (N * nat);                        (* per hash: probes started so far, sorted by hash, zeros omitted *)
  xo_get : option (option (health * Z * Z * bool));   (* for XGet: what Get returned (inner None = nil) *)
}.
Record x_case := { xc_workers : nat; xc_ops : list x_op; xc_seen : list x_obs }.

Fixpoint insert_n (x : N) (l : list N) : list N :=
  match l with [] => [x] | y :: r => if (x <=? y)%N then x :: l else y :: insert_n x r end.
Definition sort_n (l : list N) : list N := fold_right insert_n [] l.
Fixpoint count_sorted (l : list N) : list (N * nat) :=
  match l with
  | [] => []
  | x :: r => match count_sorted r with
              | (y, c) :: t => if N.eqb x y then (y, S c) :: t else (x, 1%nat) :: (y, c) :: t
              | [] => [(x, 1%nat)]
              end
  end.
Definition view_eqb (a b : health * Z * Z * bool) : bool :=
  let '(h1, s1, t1, e1) := a in let '(h2, s2, t2, e2) := b in
  health_eqb h1 h2 && Z.eqb s1 s2 && Z.eqb t1 t2 && Bool.eqb e1 e2.
Definition x_obs_eqb (a b : x_obs) : bool :=
  list_eqb N.eqb (xo_inflight a) (xo_inflight b) &&
  list_eqb (fun p q : N * nat => N.eqb (fst p) (fst q) && Nat.eqb (snd p) (snd q)) (xo_started a) (xo_started b) &&
  option_eqb (option_eqb view_eqb) (xo_get a) (xo_get b).

Definition obs_x (s_before s : xstate) (op : x_op) : x_obs :=
  {| xo_inflight := sort_n (inflight_hashes s);
     xo_started := count_sorted (sort_n (x_probes s));
     xo_get := match op with XGet h => Some (get_view s_before h) | _ => None end |}.
Fixpoint x_trace (s : xstate) (ops : list x_op) : list x_obs :=
  match ops with
  | [] => []
  | op :: r => let s' := x_step s op in obs_x s s' op :: x_trace s' r
  end.
Definition explore_agree (c : x_case) : bool := list_eqb x_obs_eqb (x_trace (x_init (xc_workers c)) (xc_ops c)) (xc_seen c).

(* ---- C20 on the implementation's observations ---- *)
Fixpoint nodup_sorted (l : list N) : bool :=
  match l with x :: ((y :: _) as r) => negb (N.eqb x y) && nodup_sorted r | _ => true end.
Definition started_of (o : x_obs) (h : N) : nat :=
  match find (fun p => N.eqb (fst p) h) (xo_started o) with Some p => snd p | None => 0%nat end.

(* quiet: hashes whose current entry has a successful probe; est: their expected estimate;
   failed: hashes whose current entry's last probe failed *)
Fixpoint c20_walk (quiet : list (N * (Z * Z))) (failed : list N) (stale : list N) (ever_ok : list N) (prev : x_obs) (ops : list x_op) (seen : list x_obs) : bool :=
  match ops, seen with
  | [], _ => true
  | op :: ops', cur :: seen' =>
    (* at most one probe per target in flight *)
    nodup_sorted (xo_inflight cur) &&
    (* after a success no further probes *)
    forallb (fun q => Nat.eqb (started_of cur (fst q)) (started_of prev (fst q))) quiet &&
    match op with
    | XGet h =>
      (* the estimate handed to the coordinator *)
      match xo_get cur, afind h quiet with
      | Some (Some (hl, s, t, e)), Some (es, et) => health_eqb hl Good && Z.eqb s es && Z.eqb t et && negb e
      | Some None, Some _ => false
      | _, _ => true
      end &&
      match xo_get cur with
      | Some (Some (hl, s, t, e)) => (negb (existsb (N.eqb h) failed) || (health_eqb hl Bad && e)) &&
                                     (* healthy only after some successful probe of this hash *)
                                     (existsb (N.eqb h) ever_ok || negb (health_eqb hl Good))
      | _ => true
      end && c20_walk quiet failed stale ever_ok cur ops' seen'
    | XUpdate jobs =>
      let hs := flat_map snd jobs in
      (* probes in flight for a hash that leaves the table belong to an object nobody reads any more *)
      c20_walk (filter (fun q => existsb (N.eqb (fst q)) hs) quiet) (filter (fun h => existsb (N.eqb h) hs) failed)
               (filter (fun h => negb (existsb (N.eqb h) hs)) (xo_inflight prev) ++ stale) ever_ok cur ops' seen'
    | XApplyConfig _ => c20_walk [] [] (xo_inflight prev ++ stale) ever_ok cur ops' seen'      (* conservative: forget *)
    | XDone h r =>
      if existsb (N.eqb h) stale then c20_walk quiet failed (filter (fun x => negb (N.eqb x h)) stale) (match r with POk _ _ => h :: ever_ok | PFail => ever_ok end) cur ops' seen'
      else if Nat.eqb (length (filter (N.eqb h) (xo_inflight prev))) 1
      then match r with
           | POk s t => c20_walk (aset h (s, t) quiet) (filter (fun x => negb (N.eqb x h)) failed) stale (h :: ever_ok) cur ops' seen'
           | PFail => c20_walk quiet (if existsb (fun q => N.eqb (fst q) h) quiet then failed else h :: failed) stale ever_ok cur ops' seen'
           end
      else c20_walk quiet failed stale ever_ok cur ops' seen'
    | XTimers => c20_walk quiet failed stale ever_ok cur ops' seen'
    end
  | _ :: _, [] => false
  end.
Definition c20_case (c : x_case) : bool :=
  c20_walk [] [] [] [] {| xo_inflight := []; xo_started := []; xo_get := None |} (xc_ops c) (xc_seen c).
