(* Model/ExploreCheck.v — case format and monitors for the `explore` engine (C20). *)
From KV Require Import Base.Util Base.AMap Model.Coordinator Model.Explore.
Local Open Scope list_scope.
Local Open Scope Z_scope.

Record x_obs := {
  xo_inflight : list N;                               (* hashes of the probes blocked right now, sorted *)
  xo_started : list (N * nat);                        (* per hash: probes started so far, sorted by hash, zeros omitted *)
  xo_get : option (option (health * Z * Z * bool));   (* for XGet: what Get returned (inner None = nil) *)
}.
Record x_case := { xc_workers : nat; xc_ops : list x_op; xc_seen : list x_obs }.

Fixpoint insert_n (x : N) (l : list N) : list N :=
  match l with [] => [x] | y :: r => if (x <=? y)%N then x :: l else y :: insert_n x r end.
Definition sort_n (l : list N) : list N := fold_right insert_n [] l.
Fixpoint count_sorted (l : list N) : list (N * nat) :=
  match l with
  | [] => []
  | x :: r => match count_sorted r with
              | (y, c) :: t => if N.eqb x y then (y, S c) :: t else (x, 1%nat) :: (y, c) :: t
              | [] => [(x, 1%nat)]
              end
  end.
Definition view_eqb (a b : health * Z * Z * bool) : bool :=
  let '(h1, s1, t1, e1) := a in let '(h2, s2, t2, e2) := b in
  health_eqb h1 h2 && Z.eqb s1 s2 && Z.eqb t1 t2 && Bool.eqb e1 e2.
Definition x_obs_eqb (a b : x_obs) : bool :=
  list_eqb N.eqb (xo_inflight a) (xo_inflight b) &&
  list_eqb (fun p q : N * nat => N.eqb (fst p) (fst q) && Nat.eqb (snd p) (snd q)) (xo_started a) (xo_started b) &&
  option_eqb (option_eqb view_eqb) (xo_get a) (xo_get b).

Definition obs_x (s_before s : xstate) (op : x_op) : x_obs :=
  {| xo_inflight := sort_n (inflight_hashes s);
     xo_started := count_sorted (sort_n (x_probes s));
     xo_get := match op with XGet h => Some (get_view s_before h) | _ => None end |}.
Fixpoint x_trace (s : xstate) (ops : list x_op) : list x_obs :=
  match ops with
  | [] => []
  | op :: r => let s' := x_step s op in obs_x s s' op :: x_trace s' r
  end.
Definition explore_agree (c : x_case) : bool := list_eqb x_obs_eqb (x_trace (x_init (xc_workers c)) (xc_ops c)) (xc_seen c).

(* ---- C20 on the implementation's observations ---- *)
Fixpoint nodup_sorted (l : list N) : bool :=
  match l with x :: ((y :: _) as r) => negb (N.eqb x y) && nodup_sorted r | _ => true end.
Definition started_of (o : x_obs) (h : N) : nat :=
  match find (fun p => N.eqb (fst p) h) (xo_started o) with Some p => snd p | None => 0%nat end.

(* monitor state: quiet = hashes whose current entry has a successful probe, with the expected estimate;
   failed = hashes whose current entry's last probe failed (a retry is due); stale = probes in flight for entries
   that left the table; ever_ok = hashes with some successful probe so far *)
Record mon := { m_quiet : list (N * (Z * Z)); m_failed : list N; m_stale : list N; m_ever_ok : list N;
                m_jobs : list (N * N) (* hash -> job, from the latest update *); m_info : list N (* jobs the scrape manager has a client for *) }.
Definition mon0 : mon := {| m_quiet := []; m_failed := []; m_stale := []; m_ever_ok := []; m_jobs := []; m_info := [0; 1; 2]%N |}.

Definition mon_next (m : mon) (prev : x_obs) (op : x_op) : mon :=
  match op with
  | XGet _ | XTimers => m
  | XJobInfo jobs => {| m_quiet := m_quiet m; m_failed := m_failed m; m_stale := m_stale m; m_ever_ok := m_ever_ok m;
                        m_jobs := m_jobs m; m_info := jobs |}
  | XUpdate jobs =>
    let hs := flat_map snd jobs in
    {| m_quiet := filter (fun q => existsb (N.eqb (fst q)) hs) (m_quiet m);
       m_failed := filter (fun h => existsb (N.eqb h) hs) (m_failed m);
       (* every running probe of a hash that leaves the table is stale; for a hash that stays, the probes that were stale
          before still are (a multiset: one entry per running stale probe) *)
       m_stale := filter (fun h => negb (existsb (N.eqb h) hs)) (xo_inflight prev) ++
                  filter (fun h => existsb (N.eqb h) hs) (m_stale m);
       m_ever_ok := m_ever_ok m;
       m_jobs := flat_map (fun jl => map (fun h => (h, fst jl)) (snd jl)) jobs; m_info := m_info m |}
  | XApplyConfig _ =>       (* conservative: forget *)
    {| m_quiet := []; m_failed := []; m_stale := xo_inflight prev; m_ever_ok := m_ever_ok m; m_jobs := m_jobs m; m_info := m_info m |}
  | XDone h r =>
    if existsb (N.eqb h) (m_stale m)
    then {| m_quiet := m_quiet m; m_failed := m_failed m;
            m_stale := remove_first h (m_stale m);    (* the oldest running probe of h finishes: a stale one, if any *)
            m_ever_ok := match r with POk _ _ => h :: m_ever_ok m | PFail => m_ever_ok m end;
            m_jobs := m_jobs m; m_info := m_info m |}
    else if Nat.eqb (length (filter (N.eqb h) (xo_inflight prev))) 1
    then match r with
         | POk s t => {| m_quiet := aset h (s, t) (m_quiet m); m_failed := filter (fun x => negb (N.eqb x h)) (m_failed m);
                         m_stale := m_stale m; m_ever_ok := h :: m_ever_ok m; m_jobs := m_jobs m; m_info := m_info m |}
         | PFail => {| m_quiet := m_quiet m;
                       m_failed := if existsb (fun q => N.eqb (fst q) h) (m_quiet m) then m_failed m else h :: m_failed m;
                       m_stale := m_stale m; m_ever_ok := m_ever_ok m; m_jobs := m_jobs m; m_info := m_info m |}
         end
    else m
  end.

(* at most one probe per target in flight *)
Definition chk_single (cur : x_obs) : bool := nodup_sorted (xo_inflight cur).

(* everything else the property says *)
Definition chk_rest (workers : nat) (m : mon) (prev cur : x_obs) (op : x_op) : bool :=
  (* after a success no further probes *)
  forallb (fun q => Nat.eqb (started_of cur (fst q)) (started_of prev (fst q))) (m_quiet m) &&
  match op with
  | XGet h =>
    (* the estimate handed to the coordinator *)
    match xo_get cur, afind h (m_quiet m) with
    | Some (Some (hl, s, t, e)), Some (es, et) => health_eqb hl Good && Z.eqb s es && Z.eqb t et && negb e
    | Some None, Some _ => false
    | _, _ => true
    end &&
    match xo_get cur with
    | Some (Some (hl, s, t, e)) => (negb (existsb (N.eqb h) (m_failed m)) || (health_eqb hl Bad && e)) &&
                                   (* healthy only after some successful probe of this hash *)
                                   (existsb (N.eqb h) (m_ever_ok m) || negb (health_eqb hl Good))
    | _ => true
    end
  | XTimers =>
    (* a failed probe is retried after the retry interval: once the timers have fired, every tracked target whose last
       probe failed is being probed again (or waits in the queue because every worker is busy) *)
    forallb (fun h => existsb (N.eqb h) (xo_inflight cur) || Nat.ltb (started_of prev h) (started_of cur h) ||
                      Nat.leb workers (length (xo_inflight cur)) ||
                      (* no client for its job: the retry fails at once again, nothing is sent *)
                      match afind h (m_jobs m) with Some j => negb (existsb (N.eqb j) (m_info m)) | None => false end) (m_failed m)
  | _ => true
  end.

Fixpoint c20_walk (single rest : bool) (workers : nat) (m : mon) (prev : x_obs) (ops : list x_op) (seen : list x_obs) : bool :=
  match ops, seen with
  | [], _ => true
  | op :: ops', cur :: seen' =>
    (negb single || chk_single cur) && (negb rest || chk_rest workers m prev cur op) &&
    c20_walk single rest workers (mon_next m prev op) cur ops' seen'
  | _ :: _, [] => false
  end.
Definition obs0 : x_obs := {| xo_inflight := []; xo_started := []; xo_get := None |}.
Definition c20_case (c : x_case) : bool := c20_walk true true (xc_workers c) mon0 obs0 (xc_ops c) (xc_seen c).
(* the part the known finding (two probes of a re-added target) does not touch: used to tell a different violation apart *)
Definition c20_rest_case (c : x_case) : bool := c20_walk false true (xc_workers c) mon0 obs0 (xc_ops c) (xc_seen c).
