(* Model/ConfigHash.v — pkg/prom/config.go: what reaches the configuration hash.
   The traversal of github.com/mitchellh/hashstructure/v2 (FormatV2, default options) over Go types and values,
   producing an abstract hash TERM instead of a 64-bit number (the number is a function of the term: equal terms
   give equal hashes; different terms give different hashes up to FNV-64 collisions), the parsed YAML document
   that kvass hashes along with the parsed configuration, and the blanking of external labels. *)
From KV Require Import Base.Util.
Local Open Scope list_scope.
Local Open Scope string_scope.

(* ---- Go types, as far as the traversal looks at them ---- *)
Inductive ty :=
| TStr
| TNum (width : N)                         (* int/uint/float kinds and bool (written as int8); width of the binary encoding *)
| TPtr (t : ty)
| TSlice (t : ty)
| TMap (k v : ty)
| TStruct (name : string) (fs : list (string * bool * ty))   (* field: name, reaches the hash (exported, no hash:"ignore"/"-" tag), type *)
| TIface (alts : list ty)                  (* the dynamic types that can sit in an interface value *)
| TBad.                                    (* func / chan / complex128: Hash reports an error *)

Definition f_name (f : string * bool * ty) : string := fst (fst f).
Definition f_vis (f : string * bool * ty) : bool := snd (fst f).
Definition f_ty (f : string * bool * ty) : ty := snd f.

Inductive val :=
| VStr (s : string)
| VNum (z : Z)
| VNil                                     (* nil pointer / nil interface *)
| VPtr (v : val)
| VSlice (l : list val)
| VMap (l : list (val * val))              (* canonical: sorted by key, one entry per key (a representation invariant) *)
| VStruct (l : list val)                   (* one value per field, in declaration order *)
| VIface (k : nat) (v : val).              (* dynamic type = alts[k] *)

Inductive term :=
| HStr (s : string)
| HNum (w : N) (z : Z)
| HSeq (l : list term)                     (* ordered combination (slices, the key/value pair of a map entry) *)
| HSet (l : list term)                     (* unordered combination (map entries), listed in the canonical order of the value *)
| HStructT (name : string) (l : list (string * term))   (* struct: type name, then (field name, field term) in declaration order *)
| HErr.

Fixpoint hs (t : ty) (v : val) {struct v} : term :=
  match v with
  | VStr s => match t with TStr => HStr s | _ => HErr end
  | VNum z => match t with TNum w => HNum w z | _ => HErr end
  | VNil => HNum 8 0                       (* reflect.Zero(int): nil is hashed like the integer 0 *)
  | VPtr v' => match t with TPtr t' => hs t' v' | _ => HErr end
  | VIface k v' => match t with TIface alts => hs (nth k alts TBad) v' | _ => HErr end
  | VSlice l => match t with TSlice t' => HSeq (map (hs t') l) | _ => HErr end
  | VMap m => match t with
              | TMap tk tv => HSet (map (fun kv => match kv with (k, x) => HSeq [hs tk k; hs tv x] end) m)
              | _ => HErr end
  | VStruct l =>
    match t with
    | TStruct name fs =>
      HStructT name ((fix go (fs : list (string * bool * ty)) (l : list val) {struct l} : list (string * term) :=
                        match l, fs with
                        | x :: r, f :: fr => if f_vis f then (f_name f, hs (f_ty f) x) :: go fr r else go fr r
                        | _, _ => []
                        end) fs l)
    | _ => HErr
    end
  end.

(* the field loop, named *)
Fixpoint hs_fields (fs : list (string * bool * ty)) (l : list val) : list (string * term) :=
  match l, fs with
  | x :: r, f :: fr => if f_vis f then (f_name f, hs (f_ty f) x) :: hs_fields fr r else hs_fields fr r
  | _, _ => []
  end.

(* ---- positions inside a value ---- *)
Inductive step := SPtr | SIface | SIdx (i : nat) | SMapVal (i : nat) | SField (i : nat).

Fixpoint replace_nth {A} (i : nat) (x : A) (l : list A) : list A :=
  match l, i with
  | [], _ => []
  | _ :: r, O => x :: r
  | y :: r, S j => y :: replace_nth j x r
  end.

(* one step down: the type and value found there, and whether the step stays inside what is hashed *)
Definition down (s : step) (t : ty) (v : val) : option (ty * val * bool) :=
  match s, t, v with
  | SPtr, TPtr t', VPtr v' => Some (t', v', true)
  | SIface, TIface alts, VIface k v' => Some (nth k alts TBad, v', true)
  | SIdx i, TSlice t', VSlice l => match nth_error l i with Some x => Some (t', x, true) | None => None end
  | SMapVal i, TMap tk tv, VMap m => match nth_error m i with Some (_, x) => Some (tv, x, true) | None => None end
  | SField i, TStruct _ fs, VStruct l =>
    match nth_error fs i, nth_error l i with
    | Some f, Some x => Some (f_ty f, x, f_vis f)
    | _, _ => None
    end
  | _, _, _ => None
  end.

(* put a value back one step down *)
Definition up (s : step) (v : val) (x : val) : val :=
  match s, v with
  | SPtr, VPtr _ => VPtr x
  | SIface, VIface k _ => VIface k x
  | SIdx i, VSlice l => VSlice (replace_nth i x l)
  | SMapVal i, VMap m => VMap (match nth_error m i with Some (k, _) => replace_nth i (k, x) m | None => m end)
  | SField i, VStruct l => VStruct (replace_nth i x l)
  | _, _ => v
  end.

(* locate p t v = the (type, value) at position p, and whether every step was visible to the hash *)
Fixpoint locate (p : list step) (t : ty) (v : val) : option (ty * val * bool) :=
  match p with
  | [] => Some (t, v, true)
  | s :: r => match down s t v with
              | Some (t', v', vis) => match locate r t' v' with
                                      | Some (t2, v2, vis2) => Some (t2, v2, vis && vis2)
                                      | None => None
                                      end
              | None => None
              end
  end.

(* replace the value at position p *)
Fixpoint put (p : list step) (t : ty) (v : val) (x : val) : val :=
  match p with
  | [] => x
  | s :: r => match down s t v with
              | Some (t', v', _) => up s v (put r t' v' x)
              | None => v
              end
  end.

(* ---- which settings of a type never reach the struct hash: owners of fields the traversal skips ---- *)
Fixpoint blind_owners (fuel : nat) (t : ty) : list string :=
  match fuel with
  | O => []
  | S f =>
    match t with
    | TPtr t' | TSlice t' => blind_owners f t'
    | TMap tk tv => blind_owners f tk ++ blind_owners f tv
    | TIface alts => flat_map (blind_owners f) alts
    | TStruct name fs =>
      flat_map (fun fd => if f_vis fd then blind_owners f (f_ty fd) else [name]) fs
    | _ => []
    end
  end.
Fixpoint sinsert (x : string) (l : list string) : list string :=
  match l with
  | [] => [x]
  | y :: r => if String.eqb x y then l else if String.ltb x y then x :: l else y :: sinsert x r
  end.
Definition sset (l : list string) : list string := fold_right sinsert [] l.

(* visibility of a path given by FIELD NAMES from the root (pointers, slices, map values and interfaces are looked
   through; for an interface every alternative that has the field is followed) *)
Fixpoint vis_names (fuel : nat) (t : ty) (p : list string) : list bool :=
  match fuel with
  | O => []
  | S f =>
    match t with
    | TPtr t' | TSlice t' => vis_names f t' p
    | TMap _ tv => vis_names f tv p
    | TIface alts => flat_map (fun a => vis_names f a p) alts
    | TStruct _ fs =>
      match p with
      | [] => [true]
      | n :: r => flat_map (fun fd => if String.eqb (f_name fd) n
                                      then (if f_vis fd then vis_names f (f_ty fd) r else [false]) else []) fs
      end
    | _ => match p with [] => [true] | _ => [] end
    end
  end.

(* ---- the parsed YAML document (yaml.v2 into a generic value) ---- *)
Inductive ydoc :=
| YScalar (s : string)                     (* kind and text of a scalar *)
| YSeq (l : list ydoc)
| YMap (l : list (string * ydoc)).         (* canonical: sorted by key *)

Fixpoint hs_doc (d : ydoc) : term :=
  match d with
  | YScalar s => HStr s
  | YSeq l => HSeq (map hs_doc l)
  | YMap m => HSet (map (fun kv => match kv with (k, x) => HSeq [HStr k; hs_doc x] end) m)
  end.

Definition drop_key (k : string) (m : list (string * ydoc)) : list (string * ydoc) :=
  filter (fun kv => negb (String.eqb (fst kv) k)) m.
(* delete(global, "external_labels"); delete(document, "global") if nothing else is left in it *)
Definition blank_entry (kv : string * ydoc) : list (string * ydoc) :=
  if String.eqb (fst kv) "global"
  then match snd kv with
       | YMap g => match drop_key "external_labels" g with [] => [] | g' => [("global", YMap g')] end
       | _ => [kv]
       end
  else [kv].
Definition blank_ext (d : ydoc) : ydoc :=
  match d with
  | YMap m => YMap (flat_map blank_entry m)
  | _ => d
  end.

(* what kvass hashes: struct{Config; Document} *)
Definition cfg_term (t : ty) (c : val) (d : ydoc) : term :=
  HStructT "" [("Config", hs t c); ("Document", hs_doc (blank_ext d))].

(* ---- case format of the `cfghash` engine ---- *)
Fixpoint ydoc_eqb (a b : ydoc) {struct a} : bool :=
  match a, b with
  | YScalar s, YScalar s' => String.eqb s s'
  | YSeq l, YSeq l' =>
    (fix go (l l' : list ydoc) : bool :=
       match l, l' with [], [] => true | x :: r, y :: r' => ydoc_eqb x y && go r r' | _, _ => false end) l l'
  | YMap m, YMap m' =>
    (fix go (m m' : list (string * ydoc)) : bool :=
       match m, m' with
       | [], [] => true
       | (k, x) :: r, (k', y) :: r' => String.eqb k k' && ydoc_eqb x y && go r r'
       | _, _ => false
       end) m m'
  | _, _ => false
  end.

Inductive edit_kind := EFormat | EExternal | ESetting.
Record ch_case := {
  ch_kind : edit_kind;                     (* what the harness did to the base text *)
  ch_doc1 : ydoc; ch_doc2 : ydoc;          (* both texts parsed by yaml.v2 (generic) *)
  ch_hash_equal : bool;                    (* ConfigManager.ConfigInfo().ConfigHash equal? (separate processes) *)
  ch_path : list string;                   (* field names from config.Config down to the edited setting ([] = not applicable) *)
  ch_struct_equal : bool;                  (* hashstructure.Hash of the parsed Config alone (external labels blanked) equal? *)
  ch_same_as_fresh : bool;                 (* the second hash was taken in a process that had loaded the first text before: equal to the hash a fresh process computes? (true when no history was used) *)
}.
