(* Model/Store.v — persistence of the sidecar's assignment: pkg/sidecar/targets.go saveTargets / Load
   as a file state machine with crash points.  Two files matter: the store file and the temporary file
   next to it.  ioutil.WriteFile(tmp) is O_TRUNC followed by byte-wise appends (any prefix can be what a
   killed writer leaves); os.Rename is one atomic effect.  The JSON codec is abstract: enc / dec. *)
From KV Require Import Base.Util.
Local Open Scope list_scope.

Section Store.
Context {B : Type}.                 (* bytes *)
Context {V : Type}.                 (* what is persisted: targets per job + idle-since *)
Variable enc : V -> list B.
Variable dec : list B -> option V.

Record fs := { f_store : option (list B); f_tmp : option (list B) }.   (* None: the file does not exist *)

Inductive effect := TruncTmp | AppendTmp (b : B) | RenameTmp.
Definition apply_effect (s : fs) (e : effect) : fs :=
  match e with
  | TruncTmp => {| f_store := f_store s; f_tmp := Some [] |}
  | AppendTmp b => {| f_store := f_store s; f_tmp := Some (match f_tmp s with Some l => l ++ [b] | None => [b] end) |}
  | RenameTmp => match f_tmp s with
                 | Some l => {| f_store := Some l; f_tmp := None |}
                 | None => s
                 end
  end.
Definition run_effects (s : fs) (es : list effect) : fs := fold_left apply_effect es s.

(* saveTargets *)
Definition save_effects (v : V) : list effect := TruncTmp :: map AppendTmp (enc v) ++ [RenameTmp].
(* the writer is stopped after n effects: process killed, or a write failing part-way (disk full) *)
Definition crash_after (n : nat) (s : fs) (v : V) : fs := run_effects s (firstn n (save_effects v)).

(* Load: the store file if it exists *)
Inductive load_result := LoadOk (v : V) | LoadEmpty | LoadErr.
Definition load (s : fs) : load_result :=
  match f_store s with
  | None => LoadEmpty
  | Some bytes => match dec bytes with Some v => LoadOk v | None => LoadErr end
  end.
End Store.
Arguments fs : clear implicits.
Arguments effect : clear implicits.
Arguments load_result : clear implicits.

(* ---- case format of the `store` engine: an assignment is identified by an id; its encoding has `len` bytes ---- *)
Record store_case := {
  st_old : N * nat;            (* id and encoded length of the acknowledged assignment *)
  st_new : N * nat;            (* ... of the assignment being persisted *)
  st_limit : nat;              (* the writer is stopped when the file it writes would exceed this many bytes *)
  st_seen : option N;          (* what a fresh Load()+TargetsInfo() resumes: Some id, None = load error *)
  st_seen_again : option N;    (* ... and the start after that *)
}.
Definition enc_id (v : N * nat) : list N := repeat (fst v) (snd v).
Definition dec_id (l : list N) : option (N * nat) := match l with [] => None | x :: _ => Some (x, length l) end.
(* crash_after in closed form (proved equal in Proofs/StoreProofs.v: crash_fast_eq; re-checked below on every case) *)
Definition crash_model (n : nat) (s : fs N) (v : N * nat) : fs N :=
  match n with
  | O => s
  | S m => if Nat.leb m (length (enc_id v))
           then {| f_store := f_store s; f_tmp := Some (firstn m (enc_id v)) |}
           else {| f_store := Some (enc_id v); f_tmp := None |}
  end.
Definition store_model (c : store_case) : option N :=
  let s0 := {| f_store := Some (enc_id (st_old c)); f_tmp := None |} in
  (* bytes 1..limit of the temporary file get written; the rename happens only if all of them did *)
  let n := if Nat.leb (snd (st_new c)) (st_limit c) then S (S (snd (st_new c))) else S (st_limit c) in
  match load dec_id (crash_model n s0 (st_new c)) with
  | LoadOk v => Some (fst v)
  | _ => None
  end.
Definition store_agree (c : store_case) : bool :=
  option_eqb N.eqb (store_model c) (st_seen c) && option_eqb N.eqb (st_seen c) (st_seen_again c).
Definition store_prop_ok (c : store_case) : bool :=
  let okv := fun x => option_eqb N.eqb x (Some (fst (st_old c))) || option_eqb N.eqb x (Some (fst (st_new c))) in
  okv (st_seen c) && option_eqb N.eqb (st_seen c) (st_seen_again c).
