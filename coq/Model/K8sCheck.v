(* Model/K8sCheck.v — case format and verdict functions for the `k8s` correspondence engine.
   A case carries the input given to the real code and what the real code produced. *)
From KV Require Import Base.Util Model.K8s.
Local Open Scope string_scope.
Local Open Scope list_scope.
Local Open Scope Z_scope.

Inductive k8s_case :=
| KScale (del : bool) (set : string) (e : Z) (before : cluster) (after : cluster)
| KScaleF (fails del : bool) (set : string) (e : Z) (before : cluster) (after : cluster) (err : bool)   (* the update call is made to fail *)
| KShards (set : string) (port : Z) (pods : list pod) (observed : list shard_out)
| KReplicas (l : list sts_status) (observed : list string)
| KReplicasHist (calls : list (Z * list sts_status)) (observed : list (list string)).   (* several calls on one manager, time passing *)

(* model and implementation agree on the observable *)
Definition k8s_agree (c : k8s_case) : bool :=
  match c with
  | KScale del set e before after => cluster_eqb (change_scale del set e before) after
  | KScaleF fails del set e before after err =>
    let (c', e') := change_scale_f fails del set e before in cluster_eqb c' after && Bool.eqb e' err
  | KShards set port pods obs => list_eqb shard_out_eqb (shards set port pods) obs
  | KReplicas l obs => list_eqb String.eqb (replicas_first_call l) obs
  | KReplicasHist calls obs => list_eqb (list_eqb String.eqb) (replicas_hist 0 [] calls) obs
  end.

(* the property itself (C18), evaluated on the implementation's observable *)
Definition scale_ok (del : bool) (set : string) (e : Z) (b a : cluster) : bool :=
  match spec_replicas b with
  | None => cluster_eqb a b
  | Some old =>
    option_eqb Z.eqb (spec_replicas a) (Some e) &&
    (if old =? e then cluster_eqb a b else true) &&
    (* every removed claim is one of the removed ordinals' claims, and only with deletion enabled *)
    forallb (fun n => str_mem n (pvcs a) ||
                      (del && str_mem n (deleted_names set (templates b) old e))) (pvcs b) &&
    (* nothing appears *)
    forallb (fun n => str_mem n (pvcs b)) (pvcs a) &&
    (* claims of surviving ordinals (0 <= i < e) stay *)
    forallb (fun i => forallb (fun t => negb (str_mem (pvc_name t set i) (pvcs b)) ||
                                        str_mem (pvc_name t set i) (pvcs a)) (templates b))
            (zrange 0 e) &&
    (* with deletion on, claims of removed ordinals are gone *)
    (if del then forallb (fun n => negb (str_mem n (pvcs a))) (deleted_names set (templates b) old e) else true)
  end.

Definition well_named (set : string) (pods : list pod) : bool :=
  forallb (fun i => str_mem (pod_name set (N.of_nat i)) (map p_name pods)) (seq 0 (length pods)).
Definition ip_of (n : string) (pods : list pod) : string :=
  match lookup n (map (fun p => (p_name p, p_ip p)) pods) with Some ip => ip | None => "" end.
Definition shards_ok (set : string) (port : Z) (pods : list pod) (obs : list shard_out) : bool :=
  negb (well_named set pods) ||
  list_eqb shard_out_eqb obs
    (map (fun i => let n := pod_name set (N.of_nat i) in
                   {| s_id := n; s_url := "http://" +++ ip_of n pods +++ ":" +++ decZ port;
                      s_ready := negb (String.eqb (ip_of n pods) "") |}) (seq 0 (length pods))).

Definition replicas_ok (l : list sts_status) (obs : list string) : bool :=
  forallb (fun s => (st_replicas s =? st_updated s) || negb (str_mem (st_name s) obs)) l.

Definition k8s_prop_ok (c : k8s_case) : bool :=
  match c with
  | KScale del set e b a => scale_ok del set e b a
  | KScaleF fails del set e b a err =>
    (* a scale request that did not take effect deletes nothing and is reported *)
    if option_eqb Z.eqb (spec_replicas a) (spec_replicas b)
    then list_eqb String.eqb (pvcs a) (pvcs b) &&
         Bool.eqb err (fails && match spec_replicas b with Some old => negb (old =? e) | None => false end)
    else scale_ok del set e b a && negb err
  | KShards set port pods obs => shards_ok set port pods obs
  | KReplicas l obs => replicas_ok l obs
  | KReplicasHist calls obs =>
    Nat.eqb (length calls) (length obs) &&
    forallb (fun co => replicas_ok (snd (fst co)) (snd co)) (combine calls obs)
  end.
