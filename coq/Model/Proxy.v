(* Model/Proxy.v — pkg/scrape/reader.go (wrappedReader.Read: the tee), the read loop of the exposition
   parser as an abstract consumer, the http.ResponseWriter header/body automaton, and
   pkg/sidecar/proxy.go ServeHTTP with its deferred completion.
   Bytes are an arbitrary type A (the theorems hold for any alphabet; the correspondence uses N). *)
From KV Require Import Base.Util Model.Coordinator.
Local Open Scope list_scope.
Local Open Scope Z_scope.

Section Bytes.
Context {A : Type}.

(* ---- the Prometheus-side response writer ---- *)
Record rwriter := {
  rw_code : option Z;            (* status line sent (first successful Write sends 200 implicitly) *)
  rw_ctype : option N;           (* Content-Type header value (an id) as it stood when the header was sent *)
  rw_pending_ctype : option N;   (* header map entry set so far *)
  rw_body : list A;
  rw_calls : list (nat * nat);   (* Write calls: (bytes offered, bytes accepted), oldest first; failing calls: accepted = 0 *)
}.
Definition rw_empty : rwriter :=
  {| rw_code := None; rw_ctype := None; rw_pending_ctype := None; rw_body := []; rw_calls := [] |}.

(* one scheduled behaviour of the writer per Write call *)
Inductive wbeh := WAccept (k : nat) (* accepts min(k, offered) >= 1 bytes *) | WFail.

Definition rw_write_header (w : rwriter) (code : Z) : rwriter :=
  match rw_code w with
  | Some _ => w                                            (* superfluous WriteHeader: ignored *)
  | None => {| rw_code := Some code; rw_ctype := rw_pending_ctype w; rw_pending_ctype := rw_pending_ctype w;
               rw_body := rw_body w; rw_calls := rw_calls w |}
  end.
Definition rw_set_ctype (w : rwriter) (c : N) : rwriter :=
  {| rw_code := rw_code w; rw_ctype := rw_ctype w; rw_pending_ctype := Some c; rw_body := rw_body w; rw_calls := rw_calls w |}.

(* Write(p): returns the new writer and Some accepted-count, or None on error *)
Definition rw_write (w : rwriter) (p : list A) (b : wbeh) : rwriter * option nat :=
  match b with
  | WFail => ({| rw_code := rw_code w; rw_ctype := rw_ctype w; rw_pending_ctype := rw_pending_ctype w;
                 rw_body := rw_body w; rw_calls := rw_calls w ++ [(length p, 0%nat)] |}, None)
  | WAccept k =>
    let n := Nat.max 1 (Nat.min k (length p)) in
    let w1 := rw_write_header w 200 in
    ({| rw_code := rw_code w1; rw_ctype := rw_ctype w1; rw_pending_ctype := rw_pending_ctype w1;
        rw_body := rw_body w ++ firstn n p; rw_calls := rw_calls w ++ [(length p, Nat.min n (length p))] |}, Some n)
  end.

(* ---- wrappedReader.Read's write loop:  for wTotal < n { wn, werr := w.Write(p[wTotal:n]); ... } ---- *)
(* returns writer, remaining schedule, true iff a write failed *)
Fixpoint tee_chunk (fuel : nat) (w : rwriter) (p : list A) (sched : list wbeh) : rwriter * list wbeh * bool :=
  match fuel with
  | O => (w, sched, false)
  | S f =>
    match p with
    | [] => (w, sched, false)
    | _ :: _ =>
      let (b, rest) := match sched with [] => (WAccept (length p), []) | b :: r => (b, r) end in
      match rw_write w p b with
      | (w', None) => (w', rest, true)
      | (w', Some n) => tee_chunk f w' (skipn n p) rest
      end
    end
  end.

(* ---- the consumer: Read until the stream ends; every chunk read goes through the tee ---- *)
Inductive end_kind := EndEOF | EndErr | EndEOFLike.   (* EOFLike: an error whose text contains "reset by peer" *)
Inductive consume_result := COk | CReadErr | CWriteErr.

Fixpoint consume (w : rwriter) (chunks : list (list A)) (e : end_kind) (sched : list wbeh) (forward : bool)
  : rwriter * consume_result :=
  match chunks with
  | [] => (w, match e with EndEOF => COk | EndErr | EndEOFLike => CReadErr end)
    (* EndEOFLike: the vendored parser stops as if at EOF, then Scraper.ParseResponse returns the read error
       remembered by the wrapped reader *)
  | c :: rest =>
    if forward then
      (* a failing Write makes wrappedReader.Read return (n, werr) with n > 0; the parser's read loop looks at the
         error only when n = 0 (lines_reader.go) and bufio hands the error out once: it is lost, the rest of this
         chunk is never forwarded, and reading goes on with the next chunk *)
      match tee_chunk (S (length c)) w c sched with
      | (w', sched', _) => consume w' rest e sched' forward
      end
    else consume w rest e sched forward
  end.

(* ---- Proxy.ServeHTTP ---- *)
Inductive target_resp :=
| TConnErr                                   (* RequestTo fails: connection error / time-out before headers *)
| TStatus (code : Z)                         (* a response with status <> 200 *)
| TBody (ctype : N) (chunks : list (list A)) (e : end_kind).   (* 200, body as the reads return it (after decompression) *)

Record preq := {
  pq_job_known : bool; pq_hash_ok : bool; pq_assigned : bool; pq_stopped : bool;
  pq_resp : target_resp; pq_sched : list wbeh;
}.
Record presult := {
  pr_writer : rwriter;
  pr_aborted : bool;           (* handler ended with panic(http.ErrAbortHandler): the connection is torn down *)
  pr_attempted : bool;         (* the proxy made a scrape attempt (counter +1 for an assigned target) *)
  pr_success : bool;           (* scrapErr == nil at the end *)
  pr_stats_updated : bool;     (* UpdateScrapeResult was called *)
}.
(* status code the client sees when the handler returns normally *)
Definition final_code (r : presult) : Z := match rw_code (pr_writer r) with Some c => c | None => 200 end.

Definition serve (q : preq) : presult :=
  if negb (pq_job_known q) || negb (pq_hash_ok q) then
    {| pr_writer := rw_write_header rw_empty 400; pr_aborted := false; pr_attempted := false; pr_success := false; pr_stats_updated := false |}
  else
    let finish (w : rwriter) (err : bool) (stats : bool) : presult :=
      (* the deferred function *)
      if err then
        (* forwardWriter.forwarded: some Write accepted at least one byte *)
        let forwarded := match rw_body w with [] => false | _ => true end in
        {| pr_writer := rw_write_header w 400; pr_aborted := forwarded;
           pr_attempted := true; pr_success := false; pr_stats_updated := stats |}
      else if pq_stopped q then
        {| pr_writer := rw_write_header w 400; pr_aborted := false; pr_attempted := true; pr_success := false; pr_stats_updated := stats |}
      else {| pr_writer := w; pr_aborted := false; pr_attempted := true; pr_success := true; pr_stats_updated := stats |} in
    match pq_resp q with
    | TConnErr => finish rw_empty true false
    | TStatus _ => finish rw_empty true false
    | TBody ctype chunks e =>
      let w0 := rw_set_ctype rw_empty ctype in
      match consume w0 chunks e (pq_sched q) (negb (pq_stopped q)) with
      | (w, COk) => finish w false true
      | (w, _) => finish w true false
      end
    end.
End Bytes.
Arguments rwriter : clear implicits.
Arguments target_resp : clear implicits.
Arguments preq : clear implicits.
Arguments presult : clear implicits.
