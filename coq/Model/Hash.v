(* Model/Hash.v — the target hash of pkg/discovery/translate.go `targetHash`, bit-exact:
     hash = FNV-1a-64( Sprintf("%016d", xxhash64(labels bytes)) ++ url )
   with labels bytes = concat (name ++ [0xff] ++ value ++ [0xff]) over the name-sorted label set (prometheus
   labels.Labels.Hash), and the de-duplication by hash of `targetsFromGroup`.
   Byte strings are lists of N (each < 256); 64-bit words are N modulo 2^64. *)
From KV Require Import Base.Util.
Local Open Scope list_scope.
Local Open Scope N_scope.

Definition bytes := list N.
(* a printable-ASCII literal as bytes (used by the generated case files) *)
Definition B (s : string) : bytes := map Ascii.N_of_ascii (list_ascii_of_string s).
Definition w64 (x : N) : N := x mod 18446744073709551616.
Definition rotl (x r : N) : N := w64 (N.lor (N.shiftl x r) (N.shiftr x (64 - r))).

(* ---- FNV-1a 64 (hash/fnv New64a) ---- *)
Definition fnv_offset : N := 14695981039346656037.
Definition fnv_prime : N := 1099511628211.
Definition fnv1a_step (h b : N) : N := w64 (N.lxor h b * fnv_prime).
Definition fnv1a (bs : bytes) : N := fold_left fnv1a_step bs fnv_offset.

(* ---- xxhash64, seed 0 (github.com/cespare/xxhash/v2 Sum64) ---- *)
Definition P1 : N := 11400714785074694791.
Definition P2 : N := 14029467366897019727.
Definition P3 : N := 1609587929392839161.
Definition P4 : N := 9650029242287828579.
Definition P5 : N := 2870177450012600261.

Fixpoint le_word (bs : bytes) : N :=            (* little-endian value of a byte list *)
  match bs with [] => 0 | b :: r => b + 256 * le_word r end.
Definition xround (acc input : N) : N := w64 (rotl (w64 (acc + input * P2)) 31 * P1).
Definition xmerge (acc val : N) : N := w64 (N.lxor acc (xround 0 val) * P1 + P4).

(* the 32-byte stripes *)
Fixpoint stripes (fuel : nat) (v : N * N * N * N) (bs : bytes) : (N * N * N * N) * bytes :=
  match fuel with
  | O => (v, bs)
  | S f =>
    if Nat.ltb (length bs) 32 then (v, bs)
    else
      let '(v1, v2, v3, v4) := v in
      let w k := le_word (firstn 8 (skipn (8 * k) bs)) in
      stripes f (xround v1 (w 0%nat), xround v2 (w 1%nat), xround v3 (w 2%nat), xround v4 (w 3%nat)) (skipn 32 bs)
  end.

Fixpoint tail8 (fuel : nat) (h : N) (bs : bytes) : N * bytes :=
  match fuel with
  | O => (h, bs)
  | S f =>
    if Nat.ltb (length bs) 8 then (h, bs)
    else let k1 := xround 0 (le_word (firstn 8 bs)) in
         tail8 f (w64 (rotl (N.lxor h k1) 27 * P1 + P4)) (skipn 8 bs)
  end.
Definition tail4 (h : N) (bs : bytes) : N * bytes :=
  if Nat.ltb (length bs) 4 then (h, bs)
  else (w64 (rotl (N.lxor h (w64 (le_word (firstn 4 bs) * P1))) 23 * P2 + P3), skipn 4 bs).
Definition tail1 (h b : N) : N := w64 (rotl (N.lxor h (w64 (b * P5))) 11 * P1).
Definition avalanche (h : N) : N :=
  let h := w64 (N.lxor h (N.shiftr h 33) * P2) in
  let h := w64 (N.lxor h (N.shiftr h 29) * P3) in
  N.lxor h (N.shiftr h 32).

Definition xxh64 (bs : bytes) : N :=
  let n := length bs in
  let '(h, rest) :=
    if Nat.ltb n 32 then (P5, bs)
    else
      let '((v1, v2, v3, v4), rest) := stripes n (w64 (P1 + P2), P2, 0, w64 (18446744073709551616 - P1)) bs in
      let h := w64 (rotl v1 1 + rotl v2 7 + rotl v3 12 + rotl v4 18) in
      (xmerge (xmerge (xmerge (xmerge h v1) v2) v3) v4, rest) in
  let h := w64 (h + N.of_nat n) in
  let '(h, rest) := tail8 n h rest in
  let '(h, rest) := tail4 h rest in
  avalanche (fold_left tail1 rest h).

(* ---- labels ---- *)
Definition label := (bytes * bytes)%type.          (* name, value *)

Fixpoint bcompare (a b : bytes) : comparison :=     (* Go string comparison: bytewise lexicographic *)
  match a, b with
  | [], [] => Eq
  | [], _ :: _ => Lt
  | _ :: _, [] => Gt
  | x :: a', y :: b' => match N.compare x y with Eq => bcompare a' b' | c => c end
  end.
Definition bleb (a b : bytes) : bool := match bcompare a b with Gt => false | _ => true end.
Definition beqb (a b : bytes) : bool := match bcompare a b with Eq => true | _ => false end.

Fixpoint insert_label (l : label) (ls : list label) : list label :=
  match ls with
  | [] => [l]
  | x :: r => if bleb (fst l) (fst x) then l :: ls else x :: insert_label l r
  end.
Definition sort_labels (ls : list label) : list label := fold_right insert_label [] ls.

Definition sep : N := 255.
Definition labels_bytes (ls : list label) : bytes :=
  flat_map (fun l => fst l ++ [sep] ++ snd l ++ [sep]) ls.

(* Sprintf("%016d", x) for an unsigned x: decimal, zero-padded to at least 16 digits *)
Fixpoint digits_rev (fuel : nat) (x : N) : bytes :=
  match fuel with
  | O => []
  | S f => if x <? 10 then [48 + x] else (48 + x mod 10) :: digits_rev f (x / 10)
  end.
Definition decimal (x : N) : bytes := rev (digits_rev 21 x).
Definition pad16 (x : N) : bytes := let d := decimal x in repeat 48 (16 - length d) ++ d.

Definition target_hash (ls : list label) (url : bytes) : N :=
  fnv1a (pad16 (xxh64 (labels_bytes (sort_labels ls))) ++ url).

(* ---- targetsFromGroup: label merge (per-target labels win over group labels) and de-duplication by hash ---- *)
Fixpoint lfind (name : bytes) (ls : list label) : option bytes :=
  match ls with [] => None | (n, v) :: r => if beqb name n then Some v else lfind name r end.
Definition merge_labels (tl gl : list label) : list label :=
  tl ++ filter (fun l => match lfind (fst l) tl with Some _ => false | None => true end) gl.

Fixpoint dedup_hash {A} (hash : A -> N) (seen : list N) (l : list A) : list A :=
  match l with
  | [] => []
  | x :: r => if existsb (N.eqb (hash x)) seen then dedup_hash hash seen r else x :: dedup_hash hash (hash x :: seen) r
  end.

(* ---- case format of the `thash` engine ---- *)
Record h_target := { ht_labels : list label; ht_url : bytes; ht_hash : N }.   (* what the implementation produced *)
Record h_case := {
  hc_runs : list (list h_target);      (* the active targets (labels as listed, url, hash) of several runs of the same content:
                                          permuted target/label order, different group/target splits, separate processes *)
  hc_edits : list (list h_target);     (* runs of single-edit variants: one label value, param, path, scheme or address changed *)
}.
Definition label_eqb (a b : label) : bool := beqb (fst a) (fst b) && beqb (snd a) (snd b).
Definition same_target (a b : h_target) : bool :=
  list_eqb label_eqb (sort_labels (ht_labels a)) (sort_labels (ht_labels b)) && beqb (ht_url a) (ht_url b).

(* correspondence: the model recomputes every 64-bit value *)
Definition thash_agree (c : h_case) : bool :=
  forallb (forallb (fun t => N.eqb (target_hash (ht_labels t) (ht_url t)) (ht_hash t))) (hc_runs c ++ hc_edits c).

(* C15 on the implementation's values:
   - inside every run, equal content <-> equal hash, and no hash is listed twice (collapse);
   - every run of the same content shows the same set of hashes (stable across orders, splits, processes);
   - a single-edit variant shares no (content, hash) confusion: across base run and variant, equal hash -> equal content *)
Definition hashes (r : list h_target) : list N := map ht_hash r.
Fixpoint nodupb (l : list N) : bool := match l with [] => true | x :: r => negb (existsb (N.eqb x) r) && nodupb r end.
Definition subsetb (a b : list N) : bool := forallb (fun x => existsb (N.eqb x) b) a.
Definition content_iff_hash (a b : list h_target) : bool :=
  forallb (fun x => forallb (fun y => Bool.eqb (same_target x y) (N.eqb (ht_hash x) (ht_hash y))) b) a.
Definition c15_case (c : h_case) : bool :=
  match hc_runs c with
  | [] => true
  | base :: others =>
    forallb (fun r => nodupb (hashes r) && content_iff_hash r r) (hc_runs c ++ hc_edits c) &&
    forallb (fun r => subsetb (hashes r) (hashes base) && subsetb (hashes base) (hashes r)) others &&
    forallb (fun r => content_iff_hash base r) (hc_edits c)
  end.
