(* Model/ProxyCheck.v — case format and monitors for the `proxy` engine (C12, C13). *)
From KV Require Import Base.Util Model.Coordinator Model.Proxy.
Local Open Scope list_scope.
Local Open Scope Z_scope.

Record proxy_obs := {
  po_code : Z;                      (* status the writer ended with (200 if the handler never sent one) *)
  po_ctype : option N;              (* Content-Type at the moment the header was sent *)
  po_body : list N;
  po_calls : list (nat * nat);
  po_aborted : bool;                (* handler panicked with http.ErrAbortHandler *)
  po_times_delta : N;               (* change of the target's ScrapeTimes (0 when not assigned) *)
  po_health : option health;        (* the target's health afterwards (None when not assigned) *)
  po_err : bool;                    (* LastError <> "" afterwards *)
  po_stats_updated : bool;          (* series/total were replaced by this scrape's counts *)
  po_clen : option N;               (* Content-Length, if the handler declared one to Prometheus *)
}.
Record proxy_case := { pc_req : preq N; pc_exact : bool (* chunk boundaries are those of the tee (no gzip layer) *); pc_obs : proxy_obs }.

Definition bytes_eqb := list_eqb N.eqb.
Definition calls_eqb := list_eqb (fun a b : nat * nat => Nat.eqb (fst a) (fst b) && Nat.eqb (snd a) (snd b)).

(* did a Write on the Prometheus side fail (observed: a call that accepted nothing) *)
Definition write_failed (o : proxy_obs) : bool := existsb (fun c => Nat.eqb (snd c) 0) (po_calls o).
Definition proxy_agree (c : proxy_case) : bool :=
  let r := serve (pc_req c) in
  let o := pc_obs c in
  let q := pc_req c in
  (* with a decompression layer in between and a stream that breaks off, the forwarded amount is not determined *)
  let undetermined := negb (pc_exact c) && match pq_resp q with TBody _ _ EndEOF => false | TBody _ _ _ => true | _ => false end in
  (* after a failing Write on the Prometheus side the outcome depends on the parser's buffer state (the error is
     swallowed or not): outside the model and outside the quantifiers of C12/C13 *)
  undetermined || write_failed o ||
  (Z.eqb (final_code r) (po_code o) &&
   bytes_eqb (rw_body (pr_writer r)) (po_body o) &&
   option_eqb N.eqb (match rw_code (pr_writer r) with Some _ => rw_ctype (pr_writer r) | None => rw_pending_ctype (pr_writer r) end) (po_ctype o) &&
   (negb (pc_exact c) || calls_eqb (rw_calls (pr_writer r)) (po_calls o)) &&
   Bool.eqb (pr_aborted r) (po_aborted o) &&
   N.eqb (if pr_attempted r && pq_assigned q then 1 else 0)%N (po_times_delta o) &&
   (negb (pq_assigned q) ||
    (option_eqb health_eqb (po_health o) (if pr_attempted r then Some (if pr_success r then Good else Bad) else Some Unknown) &&
     Bool.eqb (po_err o) (pr_attempted r && negb (pr_success r)) &&
     Bool.eqb (po_stats_updated o) (pr_stats_updated r)))).

(* ---- C12 ---- *)
Definition c12_case (c : proxy_case) : bool :=
  let q := pc_req c in let o := pc_obs c in
  (* bytes sent so far are always a prefix of the bytes served *)
  match pq_resp q with
  | TBody ctype chunks e =>
    (write_failed o || bytes_eqb (po_body o) (firstn (length (po_body o)) (concat chunks))) &&
    (negb (pq_job_known q && pq_hash_ok q && negb (pq_stopped q) && negb (write_failed o) &&
           match e with EndEOF => true | _ => false end) ||
     (Z.eqb (po_code o) 200 && bytes_eqb (po_body o) (concat chunks) && option_eqb N.eqb (po_ctype o) (Some ctype) &&
      negb (po_aborted o)))
  | _ => match po_body o with [] => true | _ => false end
  end &&
  (* a length declared to Prometheus is the length of what it is sent: a complete 200 response otherwise arrives cut
     off or is refused by the HTTP server *)
  match po_clen o with
  | None => true
  | Some n => negb (Z.eqb (po_code o) 200) || po_aborted o || write_failed o || N.eqb n (N.of_nat (length (po_body o)))
  end.

(* ---- C13 ---- *)
Definition real_failure (q : preq N) : bool :=
  match pq_resp q with
  | TConnErr | TStatus _ => true
  | TBody _ _ EndEOF => false
  | TBody _ _ _ => true
  end.
Definition c13_case (c : proxy_case) : bool :=
  let q := pc_req c in let o := pc_obs c in
  let reached := pq_job_known q && pq_hash_ok q in
  (* a failed real scrape (or a stopped one) never looks like a complete 200 *)
  (negb (reached && (real_failure q || pq_stopped q)) || negb (Z.eqb (po_code o) 200) || po_aborted o) &&
  (* counter: exactly one per attempt for an assigned target, none for requests rejected before the attempt *)
  N.eqb (po_times_delta o) (if reached && pq_assigned q then 1 else 0)%N &&
  (* health *)
  (negb (reached && pq_assigned q) || write_failed o ||
   (if real_failure q || pq_stopped q
    then option_eqb health_eqb (po_health o) (Some Bad) && po_err o
    else option_eqb health_eqb (po_health o) (Some Good) && negb (po_err o))).
