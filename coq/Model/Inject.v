(* Model/Inject.v — pkg/sidecar/injector.go: injectJobs, target2targetGroup, injectSelfMonitor, marshal.
   A scrape job is seen at the granularity the property talks about; everything the injector does not look at is an
   opaque fingerprint (equal fingerprints = equal settings).  The sections other than scrape_configs are opaque
   documents: `marshal` takes them from the origin configuration. *)
From KV Require Import Base.Util.
Local Open Scope list_scope.
Local Open Scope string_scope.

Record http := {
  h_basic_user : option string;
  h_basic_pass : option string;            (* secret *)
  h_authz : option string;                 (* secret: authorization.credentials (a bearer_token is moved here by the library) *)
  h_oauth : option string;                 (* secret: oauth2.client_secret *)
  h_tls : string;                          (* fingerprint of tls_config, "" = none *)
  h_proxy : string;                        (* proxy_url, "" = none *)
}.
Record group := { g_targets : list string; g_labels : list (string * string) }.    (* labels sorted by name *)
Record job := {
  j_name : string;
  j_scheme : string;
  j_ingest : string;                       (* fingerprint: intervals, timeout, path, params, honor flags, limits, metric relabeling *)
  j_relabel : string;                      (* fingerprint of relabel_configs *)
  j_groups : list group;                   (* static_configs *)
  j_other_sd : nat;                        (* number of non-static discovery entries *)
  j_http : http;
}.
Record target := { t_hash : N; t_labels : list (string * string) }.

Record options := {
  o_proxy : string;                        (* "" = not set *)
  o_monitor : option (string * string * string);   (* self-monitoring: host of the Prometheus URL, pod name, shard label *)
}.

(* ---- label sets (Go model.LabelSet: a map; listed sorted by name) ---- *)
Fixpoint lset (k v : string) (m : list (string * string)) : list (string * string) :=
  match m with
  | [] => [(k, v)]
  | (k', v') :: r =>
    if String.eqb k k' then (k, v) :: r
    else if String.ltb k k' then (k, v) :: m
    else (k', v') :: lset k v r
  end.
Definition of_labels (ls : list (string * string)) : list (string * string) :=
  fold_left (fun m kv => lset (fst kv) (snd kv) m) ls [].
Fixpoint lget (k : string) (m : list (string * string)) : option string :=
  match m with [] => None | (k', v) :: r => if String.eqb k k' then Some v else lget k r end.
(* last occurrence wins, as the loop in target2targetGroup *)
Definition last_label (k dflt : string) (ls : list (string * string)) : string :=
  fold_left (fun acc kv => if String.eqb (fst kv) k then snd kv else acc) ls dflt.

Definition labelmap_rule : string := "labelmap:__invalid_label_(.+)->$1".
Definition placeholder : string := "<secret>".
Definition redact (s : option string) : option string :=
  match s with Some "" => Some "" | Some _ => Some placeholder | None => None end.

(* target2targetGroup: one static group per assigned target *)
Definition to_group (jobname : string) (t : target) : group :=
  let ls := t_labels t in
  {| g_targets := [last_label "__address__" "" ls];
     g_labels := lset "__param__hash" (dec (t_hash t))
                   (lset "__param__jobName" jobname
                      (lset "__param__scheme" (last_label "__scheme__" "http" ls)
                         (lset "__scheme__" "http" (of_labels ls)))) |}.

Fixpoint assigned (jobname : string) (a : list (string * list target)) : list target :=
  match a with [] => [] | (j, ts) :: r => if String.eqb j jobname then ts else assigned jobname r end.

(* injectJobs, as seen after the written file has been loaded again (secrets left in a job print as the placeholder) *)
Definition inject_job (o : options) (a : list (string * list target)) (j : job) : job :=
  {| j_name := j_name j;
     j_scheme := "http";
     j_ingest := j_ingest j;
     j_relabel := labelmap_rule;
     j_groups := map (to_group (j_name j)) (assigned (j_name j) a);
     j_other_sd := 0;
     j_http := {| h_basic_user := None; h_basic_pass := None;
                  h_authz := redact (h_authz (j_http j)); h_oauth := redact (h_oauth (j_http j));
                  h_tls := ""; h_proxy := if String.eqb (o_proxy o) "" then h_proxy (j_http j) else o_proxy o |} |}.

Definition no_http : http :=
  {| h_basic_user := None; h_basic_pass := None; h_authz := None; h_oauth := None; h_tls := ""; h_proxy := "" |}.
Definition monitor_job (o : options) (m : string * string * string) : job :=
  let '(host, pod, shard) := m in
  {| j_name := "prometheus_shards"; j_scheme := "http"; j_ingest := ""; j_relabel := "";   (* its own settings are not compared *)
     j_groups := [{| g_targets := [host]; g_labels := lset "shard" shard (lset "replicate" pod []) |}];
     j_other_sd := 0; j_http := no_http |}.

Definition inject (o : options) (a : list (string * list target)) (jobs : list job) : list job :=
  map (inject_job o a) jobs ++ match o_monitor o with Some m => [monitor_job o m] | None => [] end.

(* marshal: the document is a list of sections; all but scrape_configs come from the origin configuration *)
Section Marshal.
Context {D : Type}.
Fixpoint sec_find (k : string) (m : list (string * D)) : option D :=
  match m with [] => None | (k', v) :: r => if String.eqb k k' then Some v else sec_find k r end.
Definition merge_sections (generated origin : list (string * D)) : list (string * D) :=
  map (fun kv => if String.eqb (fst kv) "scrape_configs" then kv
                 else match sec_find (fst kv) origin with Some v => (fst kv, v) | None => kv end) generated.
End Marshal.

(* ---- C11 stated on an output (the model's or the implementation's) ---- *)
Definition str_list_eqb := list_eqb String.eqb.
Definition kv_eqb (a b : string * string) : bool := String.eqb (fst a) (fst b) && String.eqb (snd a) (snd b).
Definition ostr_eqb := option_eqb String.eqb.

(* one static entry per assigned target, in order: its address, all of its labels, the three routing parameters,
   scheme label http *)
Definition group_ok (jobname : string) (t : target) (g : group) : bool :=
  str_list_eqb (g_targets g) [last_label "__address__" "" (t_labels t)] &&
  forallb (fun kv => if String.eqb (fst kv) "__scheme__" then true
                     else ostr_eqb (lget (fst kv) (g_labels g)) (Some (last_label (fst kv) "" (t_labels t)))) (t_labels t) &&
  ostr_eqb (lget "__scheme__" (g_labels g)) (Some "http") &&
  ostr_eqb (lget "__param__scheme" (g_labels g)) (Some (last_label "__scheme__" "http" (t_labels t))) &&
  ostr_eqb (lget "__param__jobName" (g_labels g)) (Some jobname) &&
  ostr_eqb (lget "__param__hash" (g_labels g)) (Some (dec (t_hash t))) &&
  Nat.eqb (length (g_labels g)) (length (of_labels (t_labels t ++ [("__scheme__", ""); ("__param__scheme", ""); ("__param__jobName", ""); ("__param__hash", "")]))).
Fixpoint groups_ok (jobname : string) (ts : list target) (gs : list group) : bool :=
  match ts, gs with
  | [], [] => true
  | t :: tr, g :: gr => group_ok jobname t g && groups_ok jobname tr gr
  | _, _ => false
  end.

Definition secret_free (s : option string) : bool :=
  match s with None => true | Some v => String.eqb v "" || String.eqb v placeholder end.

Definition job_ok (o : options) (a : list (string * list target)) (j out : job) : bool :=
  String.eqb (j_name out) (j_name j) &&
  String.eqb (j_scheme out) "http" &&
  String.eqb (j_ingest out) (j_ingest j) &&                     (* every ingestion-relevant setting kept *)
  groups_ok (j_name j) (assigned (j_name j) a) (j_groups out) &&   (* exactly the assigned targets, static *)
  Nat.eqb (j_other_sd out) 0 &&
  ostr_eqb (h_basic_user (j_http out)) None && ostr_eqb (h_basic_pass (j_http out)) None &&   (* credentials removed *)
  String.eqb (h_tls (j_http out)) "" &&
  secret_free (h_authz (j_http out)) && secret_free (h_oauth (j_http out)) &&                 (* no secret value left *)
  (String.eqb (o_proxy o) "" || String.eqb (h_proxy (j_http out)) (o_proxy o)).               (* through the sidecar proxy *)

Fixpoint jobs_ok (o : options) (a : list (string * list target)) (jobs outs : list job) : bool :=
  match jobs, outs with
  | [], [] => match o_monitor o with None => true | Some _ => false end
  | [], [m] => match o_monitor o with
               | Some (host, pod, shard) =>
                 String.eqb (j_name m) "prometheus_shards" &&
                 match j_groups m with [g] => str_list_eqb (g_targets g) [host] | _ => false end
               | None => false
               end
  | j :: jr, x :: xr => job_ok o a j x && jobs_ok o a jr xr
  | _, _ => false
  end.

(* ---- case format of the `inject` engine ---- *)
Record inj_case := {
  ic_opts : options;
  ic_jobs : list job;                       (* the scrape jobs of the accepted configuration (projection of config.Load) *)
  ic_assign : list (string * list target);
  ic_out_valid : bool;                      (* the written file loads with config.Load *)
  ic_out_jobs : list job;                   (* its scrape jobs, same projection *)
  ic_rest_verbatim : bool;                  (* every other section of the written file is the origin's, as generic documents *)
  ic_rest_semantic : bool;                  (* ... and equal as loaded structs, secrets included *)
  ic_leaks : nat;                           (* occurrences in the file of secret values of scrape jobs *)
}.

Definition http_eqb (a b : http) : bool :=
  ostr_eqb (h_basic_user a) (h_basic_user b) && ostr_eqb (h_basic_pass a) (h_basic_pass b) && ostr_eqb (h_authz a) (h_authz b) &&
  ostr_eqb (h_oauth a) (h_oauth b) && String.eqb (h_tls a) (h_tls b) && String.eqb (h_proxy a) (h_proxy b).
Definition group_eqb (a b : group) : bool := str_list_eqb (g_targets a) (g_targets b) && list_eqb kv_eqb (g_labels a) (g_labels b).
Definition job_eqb (a b : job) : bool :=
  String.eqb (j_name a) (j_name b) && String.eqb (j_scheme a) (j_scheme b) && String.eqb (j_ingest a) (j_ingest b) &&
  String.eqb (j_relabel a) (j_relabel b) && list_eqb group_eqb (j_groups a) (j_groups b) && Nat.eqb (j_other_sd a) (j_other_sd b) &&
  http_eqb (j_http a) (j_http b).

Definition inject_agree (c : inj_case) : bool :=
  ic_out_valid c && list_eqb job_eqb (inject (ic_opts c) (ic_assign c) (ic_jobs c)) (ic_out_jobs c) && ic_rest_verbatim c.

Definition c11_case (c : inj_case) : bool :=
  ic_out_valid c && jobs_ok (ic_opts c) (ic_assign c) (ic_jobs c) (ic_out_jobs c) && ic_rest_semantic c && Nat.eqb (ic_leaks c) 0.
