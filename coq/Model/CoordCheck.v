(* Model/CoordCheck.v — case format, schedule enumeration and property monitors for the `coord`
   correspondence engine.  The monitors are evaluated on the IMPLEMENTATION's observables. *)
From KV Require Import Base.Util Base.AMap Base.Sched Gen.Consts Model.Coordinator.
Local Open Scope list_scope.
Local Open Scope Z_scope.

Record coord_obs := {
  ob_logs : list (list req);
  ob_posts : list (option (list ptarget));   (* bodies sorted by hash *)
  ob_scales : list Z;
  ob_panic : bool;
}.
Record coord_case := { cc_opts : opts; cc_input : input; cc_obs : coord_obs }.

(* ---- canonical form of the model's output ---- *)
Fixpoint insert_pt (t : ptarget) (l : list ptarget) : list ptarget :=
  match l with
  | [] => [t]
  | x :: r => if (pt_hash t <=? pt_hash x)%N then t :: l else x :: insert_pt t r
  end.
Definition sort_pts (l : list ptarget) : list ptarget := fold_right insert_pt [] l.

Definition obs_of (out : output) : coord_obs :=
  {| ob_logs := o_logs out;
     ob_posts := map (fun p => match p with Some l => Some (sort_pts l) | None => None end) (o_posts out);
     ob_scales := o_scales out;
     ob_panic := o_divzero out |}.

Definition pt_eqb (a b : ptarget) : bool :=
  N.eqb (pt_hash a) (pt_hash b) && N.eqb (pt_job a) (pt_job b) &&
  tstate_eqb (pt_state a) (pt_state b) && Z.eqb (pt_series a) (pt_series b).
Definition obs_eqb (a b : coord_obs) : bool :=
  if ob_panic a || ob_panic b then Bool.eqb (ob_panic a) (ob_panic b)
  else
    list_eqb (list_eqb req_eqb) (ob_logs a) (ob_logs b) &&
    list_eqb (option_eqb (list_eqb pt_eqb)) (ob_posts a) (ob_posts b) &&
    list_eqb Z.eqb (ob_scales a) (ob_scales b).

(* ---- all outcomes of the model over every schedule ---- *)
Definition enum_budget : nat := 60 * 100.
Definition outcomes (o : opts) (i : input) : list output * bool :=
  enum_all (fun sch => cycle_traced o i sch) enum_budget.

(* the model outcome matching the observation, if any; second component: enumeration complete *)
Definition matching (c : coord_case) : option output * bool :=
  let (outs, complete) := outcomes (cc_opts c) (cc_input c) in
  (find (fun out => obs_eqb (obs_of out) (cc_obs c)) outs, complete).

(* verdicts: a definite disagreement needs a complete enumeration *)
Definition coord_agree (c : coord_case) : bool :=
  match matching c with
  | (Some _, _) => true
  | (None, complete) => negb complete
  end.
Definition coord_conclusive (c : coord_case) : bool :=
  match matching c with (Some _, _) => true | (None, complete) => complete end.

(* ---- vocabulary of the property texts, as functions of the scripted input and the observation ---- *)
Section Vocab.
Variable o : opts.
Variable i : input.
Variable ob : coord_obs.

Definition shard_at (k : nat) : shard_in :=
  nth k (i_shards i) {| sh_ready := false; sh_status := None; sh_rt1 := None; sh_push_ok := false; sh_rt2 := None; sh_post_ok := false |}.
Definition nshards : nat := length (i_shards i).
Definition info_at (k : nat) : sinfo := fst (get_info (shard_at k)).
Definition insync (k : nat) : bool := si_ok (info_at k).
(* what the shard returned for GET targets/status (empty if not asked or failed) *)
Definition reported (k : nat) : amap cstat := cache_of (shard_at k).
Definition post_at (k : nat) : option (list ptarget) := nth k (ob_posts ob) None.
Definition log_at (k : nat) : list req := nth k (ob_logs ob) [].
(* hashes the shard holds after the cycle *)
Definition effective (k : nat) : list (N * tstate) :=
  match post_at k with
  | Some body => if sh_post_ok (shard_at k) then map (fun t => (pt_hash t, pt_state t)) body
                 else map (fun kv => (fst kv, c_state (snd kv))) (reported k)
  | None => map (fun kv => (fst kv, c_state (snd kv))) (reported k)
  end.
(* what the coordinator asked the shard to hold (whether or not the POST arrived) *)
Definition intended (k : nat) : list (N * tstate) :=
  match post_at k with
  | Some body => map (fun t => (pt_hash t, pt_state t)) body
  | None => map (fun kv => (fst kv, c_state (snd kv))) (reported k)
  end.
Definition holds_after (k : nat) (h : N) : bool := existsb (fun x => N.eqb (fst x) h) (effective k).
Definition all_k : list nat := seq 0 nshards.
Definition valid_opts : bool := negb (max_proc o =? 0).

(* C01 *)
Definition c01_ok : bool :=
  (negb valid_opts || negb (ob_panic ob)) &&
  forallb (fun hj =>
    let h := fst hj in
    (* still held by some in-sync shard *)
    (negb (existsb (fun k => insync k && amem h (reported k)) all_k) ||
     existsb (fun k => insync k && holds_after k h) all_k)) (i_active i) &&
  forallb (fun k =>
    negb (insync k) ||
    forallb (fun kv =>
      let h := fst kv in
      holds_after k h || negb (is_active (i_active i) h) ||
      existsb (fun k' => negb (Nat.eqb k' k) && insync k' && amem h (reported k')) all_k) (reported k)) all_k.

(* C08 *)
Definition expected_sync_log (k : nat) : list req := snd (get_info (shard_at k)).
Definition newly (k : nat) : list ptarget :=
  match post_at k with
  | Some body => filter (fun t => negb (amem (pt_hash t) (reported k))) body
  | None => []
  end.
Definition is_prefix (a b : list req) : bool := list_eqb req_eqb a (firstn (length a) b).
Definition c08_ok : bool :=
  ob_panic ob ||
  forallb (fun k =>
    let lg := log_at k in
    (* the synchronisation protocol, exactly *)
    is_prefix (expected_sync_log k) lg &&
    forallb (fun r => req_eqb r PostTargets || req_eqb r PostExtra) (skipn (length (expected_sync_log k)) lg) &&
    (* left alone when not in sync *)
    (insync k || (list_eqb req_eqb lg (expected_sync_log k) && match post_at k with None => true | Some _ => false end)) &&
    (* a body is observed iff a POST targets is in the log *)
    Bool.eqb (existsb (req_eqb PostTargets) lg) (match post_at k with None => false | Some _ => true end)) all_k &&
  (* no second assignment of a target some reachable shard reports, unless an in-sync holder can be the source of a move *)
  forallb (fun k' =>
    forallb (fun t =>
      let h := pt_hash t in
      negb (existsb (fun k => negb (Nat.eqb k k') && amem h (reported k)) all_k) ||
      existsb (fun k2 => negb (Nat.eqb k2 k') && insync k2 && amem h (reported k2)) all_k) (newly k')) all_k &&
  (* a shard that is not in sync is never the destination of a move: whenever an in-sync shard is told to mark a copy
     it reported as normal in_transfer (a move starts there), an in-sync shard is asked to hold that target normally *)
  forallb (fun k =>
    negb (insync k) ||
    forallb (fun kv =>
      let h := fst kv in
      negb (tstate_eqb (c_state (snd kv)) Normal) ||
      negb (existsb (fun x => N.eqb (fst x) h && tstate_eqb (snd x) InTransfer) (intended k)) ||
      existsb (fun k' => negb (Nat.eqb k' k) && insync k' &&
                         existsb (fun x => N.eqb (fst x) h && tstate_eqb (snd x) Normal) (intended k')) all_k) (reported k)) all_k.

(* C04, what can be decided from the implementation's observables alone *)
Definition runtime_used (k : nat) : sinfo := info_at k.
Definition sources_total (k : nat) (h : N) : Z :=
  let cands := flat_map (fun k2 => if Nat.eqb k2 k then [] else
                                   match afind h (reported k2) with Some c => [c_total c] | None => [] end) all_k
               ++ match afind h (i_explore i) with Some c => [c_total c] | None => [] end in
  match cands with [] => 0 | x :: r => fold_left Z.min r x end.
Definition unscraped (h : N) : bool := negb (existsb (fun k => amem h (reported k)) all_k).
Definition alone_exceeds (c : cstat) : bool :=
  (negb (max_head o =? 0) && (max_head o <? c_series c)) || (max_proc o <? c_total c).
Definition c04_ok : bool :=
  ob_panic ob ||
  (forallb (fun k =>
    match newly k with
    | [] => true
    | nw =>
      let head := si_head (runtime_used k) + fold_left (fun a t => a + pt_series t) nw 0 in
      let proc := si_proc (runtime_used k) + fold_left (fun a t => a + sources_total k (pt_hash t)) nw 0 in
      ((max_head o =? 0) || (head <? max_head o)) && (proc <? max_proc o)
    end) all_k &&
  (* an unscraped target that alone exceeds a limit is never assigned *)
  forallb (fun k => forallb (fun t =>
      negb (unscraped (pt_hash t)) ||
      match afind (pt_hash t) (i_explore i) with Some c => negb (alone_exceeds c) | None => true end) (newly k)) all_k).

(* ... and never causes a scale-up: when every unscraped healthy target is oversized, all shards are in sync and
   no shard is at or above a limit (so relief needs nothing), no request exceeds max(current, min) *)
Definition only_oversized_pending : bool :=
  forallb (fun hj => let h := fst hj in
    negb (unscraped h) ||
    match afind h (i_explore i) with
    | Some c => negb (health_eqb (c_health c) Good) || alone_exceeds c
    | None => true
    end) (i_active i).
Definition relief_quiet : bool :=
  forallb (fun k => insync k && (si_proc (info_at k) <? max_proc o) &&
                    ((max_head o =? 0) || (si_head (info_at k) <? max_head o))) all_k.
Definition c04_no_scaleup_ok : bool :=
  ob_panic ob || negb valid_opts || negb (only_oversized_pending && relief_quiet) ||
  forallb (fun r => r <=? Z.max (Z.of_nat nshards) (min_shard o)) (ob_scales ob).

(* C05, with the README's literal 3 *)
Definition three : N := 3%N.
Definition c05_ok : bool :=
  ob_panic ob ||
  (forallb (fun k =>
    negb (insync k) ||
    forallb (fun kv =>
      let h := fst kv in
      holds_after k h || negb (is_active (i_active i) h) ||
      ((three <=? c_times (snd kv))%N &&
       existsb (fun k' => negb (Nat.eqb k' k) && insync k' &&
                          match afind h (reported k') with Some c' => (three <=? c_times c')%N | None => false end) all_k))
      (reported k)) all_k &&
  (* a move marks the source and creates a normal copy in the same cycle *)
  forallb (fun k' =>
    forallb (fun t =>
      let h := pt_hash t in
      match filter (fun k => negb (Nat.eqb k k') && amem h (reported k)) all_k with
      | [k] => negb (insync k) ||
               (tstate_eqb (pt_state t) Normal &&
                existsb (fun x => N.eqb (fst x) h && tstate_eqb (snd x) InTransfer) (intended k))
      | _ => true
      end) (newly k')) all_k).

(* C07 *)
Definition given_target (k : nat) : bool := match newly k with [] => false | _ => true end.
Definition in_use (k : nat) : bool :=
  negb (insync k) ||
  negb (match reported k with [] => true | _ => false end) ||
  given_target k ||
  match si_idle (info_at k) with Some age => age <=? max_idle o | None => true end.
Definition last_in_use : Z :=
  fold_left (fun acc k => if in_use k then Z.of_nat (S k) else acc) all_k 0.
Definition c07_bounds_ok : bool :=
  ob_panic ob || (max_shard o <? min_shard o) ||
  forallb (fun r => (min_shard o <=? r) && (r <=? max_shard o)) (ob_scales ob).
(* "more space is needed", read off the observables: a healthy unscraped target that fits into an empty shard
   was not placed anywhere - and has a size: the needed space is the sum of the sizes of what could not be placed, so a
   target whose probe found no samples needs none (coordinator.go `needSpace.IsZero()`, C07_no_shrink's premise) *)
Definition fits_alone (c : cstat) : bool :=
  ((max_head o =? 0) || (c_series c <? max_head o)) && (c_total c <? max_proc o) && negb (max_proc o <? c_series c).   (* the last conjunct: isTooBig also compares the series with the process limit *)
Definition placed_somewhere (h : N) : bool :=
  existsb (fun k => existsb (fun t => N.eqb (pt_hash t) h) (newly k)) all_k.
Definition pending_eligible : bool :=
  existsb (fun hj => let h := fst hj in
    unscraped h && negb (placed_somewhere h) &&
    match afind h (i_explore i) with
    | Some c => health_eqb (c_health c) Good && fits_alone c && ((0 <? c_series c) || (0 <? c_total c))
    | None => false
    end) (i_active i).
(* what a sidecar can report: idle-since is set only while nothing is assigned (C10) *)
Definition consistent_idle : bool :=
  forallb (fun k => match si_idle (info_at k), reported k with Some _, _ :: _ => false | _, _ => true end) all_k.
Definition c07_used_ok : bool :=
  ob_panic ob || (max_shard o <? min_shard o) || (max_shard o <? Z.of_nat nshards) || negb consistent_idle ||
  (forallb (fun r => last_in_use <=? r) (ob_scales ob) &&
   ((negb ((max_idle o =? 0) || pending_eligible)) || forallb (fun r => Z.of_nat nshards <=? r) (ob_scales ob))).
End Vocab.

Definition c01_case (c : coord_case) := c01_ok (cc_opts c) (cc_input c) (cc_obs c).
Definition c04_case (c : coord_case) := c04_ok (cc_opts c) (cc_input c) (cc_obs c) && c04_no_scaleup_ok (cc_opts c) (cc_input c) (cc_obs c).
Definition c05_case (c : coord_case) := c05_ok (cc_input c) (cc_obs c).
Definition c07_case (c : coord_case) := c07_bounds_ok (cc_opts c) (cc_obs c) && c07_used_ok (cc_opts c) (cc_input c) (cc_obs c).
Definition c08_case (c : coord_case) := c08_ok (cc_input c) (cc_obs c).

(* ---- two replicas in one run (C19): replica B alone, and B coordinated after replica A ---- *)
Record coord2_case := {
  c2_opts : opts;
  c2_a : option input;          (* None: A's shard listing fails *)
  c2_b : input;
  c2_obs_a : coord_obs;         (* what A's shards saw (ignored when listing fails) *)
  c2_b_alone : coord_obs;
  c2_b_with : coord_obs;
}.
Definition member (o : opts) (i : input) (ob : coord_obs) : bool * bool :=
  let (outs, complete) := outcomes o i in (existsb (fun out => obs_eqb (obs_of out) ob) outs, complete).
Definition agree_one (o : opts) (i : input) (ob : coord_obs) : bool :=
  let (m, complete) := member o i ob in m || negb complete.
Definition coord2_agree (c : coord2_case) : bool :=
  agree_one (c2_opts c) (c2_b c) (c2_b_alone c) && agree_one (c2_opts c) (c2_b c) (c2_b_with c) &&
  match c2_a c with Some ia => agree_one (c2_opts c) ia (c2_obs_a c) | None => true end.
(* the property on the implementation: in scenarios whose outcome does not depend on iteration order,
   B's shards receive exactly the same with and without A *)
Definition confluent (o : opts) (i : input) : bool :=
  let (outs, complete) := outcomes o i in
  complete && match outs with [] => true | x :: r => forallb (fun y => obs_eqb (obs_of x) (obs_of y)) r end.
Definition c19_case (c : coord2_case) : bool :=
  negb (confluent (c2_opts c) (c2_b c)) || obs_eqb (c2_b_alone c) (c2_b_with c).
