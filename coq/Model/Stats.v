(* Model/Stats.v — pkg/scrape/scraper.go StatisticSeries: sample counting with metric relabeling.
   A row is one parsed sample (metric name + its own labels).  `keep` stands for
   relabel.Process(lset, rules...) != nil; the executable correspondence instantiates it with an
   interpreter for keep/drop rules with literal regexes (Prometheus anchors them: ^(?:lit)$). *)
From KV Require Import Base.Util Base.AMap.
Local Open Scope list_scope.
Local Open Scope Z_scope.

Record row := { r_metric : N; r_tags : list (N * N) }.      (* label-name id -> value id (ids >= 1) *)
Record stat := { s_total : Z; s_scraped : Z; s_metrics : amap (Z * Z) (* metric -> (total, scraped) *) }.
Definition empty_stat : stat := {| s_total := 0; s_scraped := 0; s_metrics := [] |}.

Section Stat.
Variable keep : row -> bool.

Definition stat_row (s : stat) (r : row) : stat :=
  let m := r_metric r in
  let old := match afind m (s_metrics s) with Some p => p | None => (0, 0) end in
  let k := keep r in
  {| s_total := s_total s + 1;
     s_scraped := if k then s_scraped s + 1 else s_scraped s;
     s_metrics := aset m (fst old + 1, if k then snd old + 1 else snd old) (s_metrics s) |}.

(* one call of StatisticSeries on a block of rows, accumulating into the shared result *)
Definition stat_block (s : stat) (rows : list row) : stat := fold_left stat_row rows s.
(* the parser hands the payload over block by block *)
Definition stat_blocks (blocks : list (list row)) : stat := fold_left stat_block blocks empty_stat.
End Stat.

(* ---- the relabel interpreter used by the correspondence check ---- *)
Inductive action := RKeep | RDrop.
Record rule := { ru_action : action; ru_label : N (* 0 = __name__ *); ru_value : N }.
Definition label_value (r : row) (l : N) : N :=
  if (l =? 0)%N then r_metric r else match afind l (r_tags r) with Some v => v | None => 0%N end.
Definition rule_keeps (r : row) (ru : rule) : bool :=
  let m := (label_value r (ru_label ru) =? ru_value ru)%N in
  match ru_action ru with RKeep => m | RDrop => negb m end.
Definition keep_by (rules : list rule) (r : row) : bool := forallb (rule_keeps r) rules.

(* ---- case format of the `stats` engine ---- *)
Record stats_obs := { so_total : Z; so_scraped : Z; so_metrics : list (N * (Z * Z)) (* sorted by metric *) }.
Record stats_case := { sc_rules : list rule; sc_blocks : list (list row); sc_seen : stats_obs }.

Fixpoint insert_m (t : N * (Z * Z)) (l : list (N * (Z * Z))) : list (N * (Z * Z)) :=
  match l with
  | [] => [t]
  | x :: r => if (fst t <=? fst x)%N then t :: l else x :: insert_m t r
  end.
Definition stats_obs_of (s : stat) : stats_obs :=
  {| so_total := s_total s; so_scraped := s_scraped s; so_metrics := fold_right insert_m [] (s_metrics s) |}.
Definition m_eqb (a b : N * (Z * Z)) : bool :=
  N.eqb (fst a) (fst b) && Z.eqb (fst (snd a)) (fst (snd b)) && Z.eqb (snd (snd a)) (snd (snd b)).
Definition stats_agree (c : stats_case) : bool :=
  let o := stats_obs_of (stat_blocks (keep_by (sc_rules c)) (sc_blocks c)) in
  Z.eqb (so_total o) (so_total (sc_seen c)) && Z.eqb (so_scraped o) (so_scraped (sc_seen c)) &&
  list_eqb m_eqb (so_metrics o) (so_metrics (sc_seen c)).

(* C14, first sentence, evaluated on the implementation's numbers *)
Definition stats_prop_ok (c : stats_case) : bool :=
  let rows := concat (sc_blocks c) in
  let o := sc_seen c in
  Z.eqb (so_total o) (Z.of_nat (length rows)) &&
  Z.eqb (so_scraped o) (Z.of_nat (length (filter (keep_by (sc_rules c)) rows))) &&
  Z.eqb (fold_left (fun a m => a + fst (snd m)) (so_metrics o) 0) (so_total o) &&
  Z.eqb (fold_left (fun a m => a + snd (snd m)) (so_metrics o) 0) (so_scraped o) &&
  forallb (fun m => Z.eqb (fst (snd m)) (Z.of_nat (length (filter (fun r => N.eqb (r_metric r) (fst m)) rows))) &&
                    Z.eqb (snd (snd m)) (Z.of_nat (length (filter (fun r => N.eqb (r_metric r) (fst m) && keep_by (sc_rules c) r) rows))))
          (so_metrics o).
