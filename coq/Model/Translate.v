(* Model/Translate.v — C02: from a discovered target to what is really scraped, on both routes.
   Reference route (one plain Prometheus): scrape.PopulateLabels + Target.URL of the Prometheus library.
   Sharded route: kvass' copy of populateLabels (pkg/discovery/translate.go), labelsWithoutConfigParam,
   supportInvalidLabelName, target2targetGroup (pkg/sidecar/injector.go), the library's PopulateLabels again on the
   shard under the generated job, and translateURL in the sidecar proxy (pkg/sidecar/proxy.go).
   Relabeling is a parameter (any function); the correspondence run instantiates it with an interpreter for a
   literal-pattern subset of relabel rules. *)
From KV Require Import Base.Util Model.Inject.
Local Open Scope list_scope.
Local Open Scope string_scope.

Definition labels := list (string * string).      (* sorted by name; lset/lget of Model/Inject.v *)

(* label sets are association lists in no particular order, one entry per name, no empty values; a set is brought
   into name order (of_labels) only where it is shown (visible labels) or shipped *)
Definition ldel (k : string) (m : labels) : labels := filter (fun kv => negb (String.eqb (fst kv) k)) m.
(* labels.Builder.Set: an empty value deletes *)
Definition lb_set (k v : string) (m : labels) : labels := if String.eqb v "" then ldel k m else (k, v) :: ldel k m.
Definition lval (k : string) (m : labels) : string := match lget k m with Some v => v | None => "" end.   (* Labels.Get *)

Definition has_prefix (p s : string) : bool := String.prefix p s.
Definition drop_prefix (p s : string) : string := substring (String.length p) (String.length s - String.length p) s.

Record jobcfg := {
  jc_name : string; jc_scheme : string; jc_path : string;
  jc_params : list (string * list string);         (* sorted by key *)
  jc_interval : string; jc_timeout : string;       (* as printed durations *)
}.

Inductive outcome := Dropped | Failed | Active (l : labels).

(* ---- what both copies of populateLabels share ---- *)
Section Populate.
Variable relabel : labels -> option labels.
Variable needs_port : string -> bool.              (* addPort: the address has no port and would be valid with one *)
Variable addr_ok : string -> bool.                 (* config.CheckTargetAddress *)
Variable interval_ok : string -> string -> bool.   (* both durations parse, are non-zero, timeout <= interval *)

Definition set_if_empty (k v : string) (orig m : labels) : labels := if String.eqb (lval k orig) "" then lb_set k v m else m.
Definition set_params (ps : list (string * list string)) (m : labels) : labels :=
  fold_left (fun m kv => match snd kv with v0 :: _ => lb_set ("__param_" ++ fst kv) v0 m | [] => m end) ps m.
(* every __meta_ label of the relabelled set is deleted from the builder (which holds the same names) *)
Definition del_meta (m : labels) : labels := filter (fun kv => negb (has_prefix "__meta_" (fst kv))) m.

Definition populate (with_interval : bool) (c : jobcfg) (d : labels) : outcome :=
  let m0 := set_if_empty "job" (jc_name c) d d in
  let m1 := if with_interval
            then set_if_empty "__scrape_timeout__" (jc_timeout c) d (set_if_empty "__scrape_interval__" (jc_interval c) d m0)
            else m0 in
  let m2 := set_if_empty "__scheme__" (jc_scheme c) d (set_if_empty "__metrics_path__" (jc_path c) d m1) in
  let pre := set_params (jc_params c) m2 in
  match relabel pre with
  | None => Dropped
  | Some l =>
    if String.eqb (lval "__address__" l) "" then Failed else
    let a := lval "__address__" l in
    let sch := lval "__scheme__" l in
    let port := if needs_port a
                then (if String.eqb sch "http" || String.eqb sch "" then Some ":80" else if String.eqb sch "https" then Some ":443" else None)
                else Some "" in
    match port with
    | None => Failed
    | Some suffix =>
      let addr := a ++ suffix in
      if negb (addr_ok addr) then Failed else
      if with_interval && negb (interval_ok (lval "__scrape_interval__" l) (lval "__scrape_timeout__" l)) then Failed else
      let m3 := del_meta (lb_set "__address__" addr l) in
      Active (if String.eqb (lval "instance" l) "" then lb_set "instance" addr m3 else m3)
    end
  end.
End Populate.

(* what Prometheus shows of a target: labels without the reserved prefix *)
Definition visible (l : labels) : labels := of_labels (filter (fun kv => negb (has_prefix "__" (fst kv))) l).

(* Target.URL(): the job's params, first value overridden by a __param_<k> label (a new key gets the single value);
   url.Values.Encode lists the keys in order: sort_query *)
Definition qval (k : string) (q : list (string * list string)) : list string :=
  match find (fun kv => String.eqb (fst kv) k) q with Some (_, vs) => vs | None => [] end.
Definition qset (k : string) (f : list string -> list string) (q : list (string * list string)) : list (string * list string) :=
  (k, f (qval k q)) :: filter (fun kv => negb (String.eqb (fst kv) k)) q.
Fixpoint qinsert (x : string * list string) (q : list (string * list string)) : list (string * list string) :=
  match q with [] => [x] | y :: r => if String.ltb (fst x) (fst y) then x :: q else y :: qinsert x r end.
Definition sort_query (q : list (string * list string)) : list (string * list string) := fold_right qinsert [] q.
Definition url_query (ps : list (string * list string)) (l : labels) : list (string * list string) :=
  fold_left (fun q kv => if has_prefix "__param_" (fst kv)
                         then qset (drop_prefix "__param_" (fst kv)) (fun vs => snd kv :: tl vs) q else q) l ps.
Record url := { u_scheme : string; u_host : string; u_path : string; u_query : list (string * list string) }.
Definition target_url (ps : list (string * list string)) (l : labels) : url :=
  {| u_scheme := lval "__scheme__" l; u_host := lval "__address__" l; u_path := lval "__metrics_path__" l;
     u_query := sort_query (filter (fun kv => match snd kv with [] => false | _ => true end) (url_query ps l)) |}.

(* ---- the sharded route ---- *)
Definition invalid_prefix : string := "__invalid_label_".
(* labelsWithoutConfigParam: a __param_<k> label of a configured k is dropped when it still carries the job's own
   first value (the shard's Prometheus sets it again); when a relabel rule gave it another value it is shipped under
   the invalid-label prefix, so that the labelmap rule of the generated job restores it AFTER the shard's Prometheus
   has applied the job's params *)
Definition without_config_param (ps : list (string * list string)) (l : labels) : labels :=
  flat_map (fun kv =>
    if has_prefix "__param_" (fst kv)
    then match find (fun p => String.eqb (fst p) (drop_prefix "__param_" (fst kv))) ps with
         | Some (_, v0 :: _) => if String.eqb (snd kv) v0 then [] else [(invalid_prefix ++ fst kv, snd kv)]
         | _ => [kv]
         end
    else [kv]) l.
(* supportInvalidLabelName: a name that is not a valid label name gets the prefix; the shipped set is re-sorted by
   the JSON round trip (an object) *)
Definition is_name_start (c : Ascii.ascii) : bool :=
  let n := Ascii.nat_of_ascii c in
  ((65 <=? n) && (n <=? 90) || (97 <=? n) && (n <=? 122) || (n =? 95))%nat.
Definition is_name_char (c : Ascii.ascii) : bool :=
  let n := Ascii.nat_of_ascii c in is_name_start c || ((48 <=? n) && (n <=? 57))%nat.
Fixpoint all_chars (f : Ascii.ascii -> bool) (s : string) : bool :=
  match s with EmptyString => true | String c r => f c && all_chars f r end.
Definition valid_name (s : string) : bool :=
  match s with EmptyString => false | String c r => is_name_start c && all_chars is_name_char r end.
Definition support_invalid (l : labels) : labels :=
  map (fun kv => if valid_name (fst kv) then kv else (invalid_prefix ++ fst kv, snd kv)) l.
Definition shipped (ps : list (string * list string)) (l : labels) : labels := support_invalid (without_config_param ps l).

(* the relabeling of the generated job: labelmap __invalid_label_(.+) -> $1 (iterates the set it was given) *)
Definition labelmap_invalid (l : labels) : option labels :=
  Some (fold_left (fun m kv =>
          if has_prefix invalid_prefix (fst kv) && Nat.ltb (String.length invalid_prefix) (String.length (fst kv))
          then lb_set (drop_prefix invalid_prefix (fst kv)) (snd kv) m else m) l l).

(* translateURL in the proxy: the three routing parameters leave the query, the scheme comes back *)
Definition routing (k : string) : bool := String.eqb k "_hash" || String.eqb k "_jobName" || String.eqb k "_scheme".
Definition qget (k : string) (q : list (string * list string)) : string :=
  match find (fun kv => String.eqb (fst kv) k) q with Some (_, v :: _) => v | _ => "" end.
Definition translate_url (u : url) : url :=
  {| u_scheme := qget "_scheme" (u_query u); u_host := u_host u; u_path := u_path u;
     u_query := filter (fun kv => negb (routing (fst kv))) (u_query u) |}.

Section Routes.
Variable relabel : labels -> option labels.
Variable needs_port : string -> bool.
Variable addr_ok : string -> bool.
Variable interval_ok : string -> string -> bool.

(* one plain Prometheus *)
Definition plain (c : jobcfg) (d : labels) : option (labels * url) :=
  match populate relabel needs_port addr_ok interval_ok true c d with
  | Active l => Some (visible l, target_url (jc_params c) l)
  | _ => None
  end.

(* coordinator -> sidecar -> shard's Prometheus -> proxy *)
Definition shard_cfg (c : jobcfg) : jobcfg :=
  {| jc_name := jc_name c; jc_scheme := "http"; jc_path := jc_path c; jc_params := jc_params c;
     jc_interval := jc_interval c; jc_timeout := jc_timeout c |}.
Definition coordinator_labels (c : jobcfg) (d : labels) : outcome :=
  populate relabel needs_port addr_ok interval_ok false c d.
(* target2targetGroup (Model/Inject.v to_group; here without the name order, which nothing below depends on): the
   shipped labels, scheme label forced to http, the three routing parameters *)
Definition group_labels (name : string) (hash : N) (sh : labels) : labels :=
  let sch := if String.eqb (lval "__scheme__" sh) "" then "http" else lval "__scheme__" sh in
  lb_set "__param__hash" (dec hash) (lb_set "__param__jobName" name (lb_set "__param__scheme" sch (lb_set "__scheme__" "http" sh))).
Definition sharded_from (c : jobcfg) (hash : N) (l : labels) : option (labels * url) :=
  match populate labelmap_invalid needs_port addr_ok interval_ok true (shard_cfg c) (group_labels (jc_name c) hash (shipped (jc_params c) l)) with
  | Active l' => Some (visible l', translate_url (target_url (jc_params c) l'))
  | _ => None
  end.
Definition sharded (c : jobcfg) (hash : N) (d : labels) : option (labels * url) :=
  match coordinator_labels c d with
  | Active l => sharded_from c hash l
  | _ => None
  end.
End Routes.

(* ---- an interpreter for a literal-pattern subset of relabel rules (for the correspondence run) ---- *)
Inductive pat := PLit (s : string) | PAny | PSome | PPrefixSome (s : string) | PAlt (a b : string).
Definition pmatch (p : pat) (v : string) : option string :=      (* Some capture when the anchored pattern matches *)
  match p with
  | PLit s => if String.eqb v s then Some "" else None
  | PAny => Some v
  | PSome => if String.eqb v "" then None else Some v
  | PPrefixSome s => if has_prefix s v && Nat.ltb (String.length s) (String.length v) then Some (drop_prefix s v) else None
  | PAlt a b => if String.eqb v a || String.eqb v b then Some "" else None
  end.
Inductive piece := TLit (s : string) | TCap.
Definition expand (t : list piece) (cap : string) : string :=
  fold_left (fun acc p => acc ++ match p with TLit s => s | TCap => cap end) t "".
Inductive raction := RReplace | RKeep | RDrop | RLabelMap | RLabelDrop | RLabelKeep.
Record rrule := { rr_action : raction; rr_src : list string; rr_sep : string; rr_pat : pat; rr_target : string; rr_repl : list piece }.
Fixpoint join (sep : string) (l : list string) : string :=
  match l with [] => "" | [x] => x | x :: r => x ++ sep ++ join sep r end.
Definition relabel1 (r : rrule) (l : labels) : option labels :=
  let val := join (rr_sep r) (map (fun n => lval n l) (rr_src r)) in
  match rr_action r with
  | RDrop => match pmatch (rr_pat r) val with Some _ => None | None => Some l end
  | RKeep => match pmatch (rr_pat r) val with Some _ => Some l | None => None end
  | RReplace =>
    match pmatch (rr_pat r) val with
    | None => Some l
    | Some cap => let res := expand (rr_repl r) cap in
                  Some (if String.eqb res "" then ldel (rr_target r) l else lb_set (rr_target r) res l)
    end
  | RLabelMap =>
    Some (fold_left (fun m kv => match pmatch (rr_pat r) (fst kv) with
                                 | Some cap => lb_set (expand (rr_repl r) cap) (snd kv) m
                                 | None => m end) l l)
  | RLabelDrop => Some (filter (fun kv => match pmatch (rr_pat r) (fst kv) with Some _ => false | None => true end) l)
  | RLabelKeep => Some (filter (fun kv => match pmatch (rr_pat r) (fst kv) with Some _ => true | None => false end) l)
  end.
Definition relabel_rules (rs : list rrule) (l : labels) : option labels :=
  fold_left (fun acc r => match acc with Some x => relabel1 r x | None => None end) rs (Some l).

(* ---- case format of the `translate` engine ---- *)
Definition contains_char (c : Ascii.ascii) (s : string) : bool := negb (all_chars (fun x => negb (Ascii.eqb x c)) s).
(* addPort (net.SplitHostPort fails on s, succeeds on s:1234) on the addresses the engine generates: no colon at all, or
   an IPv6 literal in brackets without a port *)
Fixpoint last_char (s : string) : option Ascii.ascii :=
  match s with
  | EmptyString => None
  | String c r => match last_char r with None => Some c | x => x end
  end.
Definition bracketed (s : string) : bool :=
  match s with String c _ => Ascii.eqb c (Ascii.ascii_of_nat 91) | EmptyString => false end &&
  match last_char s with Some c => Ascii.eqb c (Ascii.ascii_of_nat 93) | None => false end.
Definition x_needs_port (s : string) : bool := negb (contains_char (Ascii.ascii_of_nat 58) s) || bracketed s.
Definition x_addr_ok (s : string) : bool := negb (contains_char (Ascii.ascii_of_nat 47) s).
Definition x_interval_ok (i t : string) : bool := negb (String.eqb i "bad") && negb (String.eqb t "bad").

Record tr_case := {
  tc_cfg : jobcfg;
  tc_rules : list rrule;
  tc_discovered : list labels;            (* per discovered entry: group labels and its own labels merged (its own win), sorted *)
  tc_modelled : bool;                     (* false: arbitrary regexes / values - only reference vs system is compared *)
  tc_ref : list (labels * url);           (* library: scrape.TargetsFromGroup on the original job, de-duplicated, sorted *)
  tc_sys : list (labels * url);           (* kvass: visible labels on the shard and the URL the proxy really requests *)
  tc_sys_valid : bool;                    (* the generated configuration was accepted by config.Load *)
}.

Definition kv_list_eqb := list_eqb kv_eqb.
Definition q_eqb (a b : list (string * list string)) : bool :=
  list_eqb (fun x y => String.eqb (fst x) (fst y) && list_eqb String.eqb (snd x) (snd y)) a b.
Definition url_eqb (a b : url) : bool :=
  String.eqb (u_scheme a) (u_scheme b) && String.eqb (u_host a) (u_host b) && String.eqb (u_path a) (u_path b) && q_eqb (u_query a) (u_query b).
Definition tgt_eqb (a b : labels * url) : bool := kv_list_eqb (fst a) (fst b) && url_eqb (snd a) (snd b).
Definition subset_t (a b : list (labels * url)) : bool := forallb (fun x => existsb (tgt_eqb x) b) a.
Definition same_set (a b : list (labels * url)) : bool := subset_t a b && subset_t b a.

Definition flat_opt {A} (l : list (option A)) : list A := flat_map (fun o => match o with Some x => [x] | None => [] end) l.
Definition model_ref (c : tr_case) : list (labels * url) :=
  flat_opt (map (plain (relabel_rules (tc_rules c)) x_needs_port x_addr_ok x_interval_ok (tc_cfg c)) (tc_discovered c)).
Definition model_sys (c : tr_case) : list (labels * url) :=
  flat_opt (map (sharded (relabel_rules (tc_rules c)) x_needs_port x_addr_ok x_interval_ok (tc_cfg c) 1) (tc_discovered c)).

Definition translate_agree (c : tr_case) : bool :=
  negb (tc_modelled c) || (same_set (model_ref c) (tc_ref c) && same_set (model_sys c) (tc_sys c)).
(* C02 on the implementation: the shards scrape exactly what one plain Prometheus would *)
Definition c02_case (c : tr_case) : bool := tc_sys_valid c && same_set (tc_ref c) (tc_sys c).
